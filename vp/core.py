"""Shared plumbing: locating /repo, Result/Fail records, canonical JSON, crash classification."""
import hashlib
import json
import os
import sys
import traceback

VERIF_DIR = os.path.dirname(os.path.dirname(os.path.abspath(__file__)))
REPO = os.environ.get("VERIF_REPO", "/repo")
GUARD = "TORCHSDE_VERIF"
OUT_DIR = os.environ.get("VERIF_OUT", VERIF_DIR)   # evidence/ and replays/ are written below this directory


def setup_imports():
    """Make `import torchsde` resolve to the working tree under REPO (not a stale install)."""
    os.environ.setdefault(GUARD, "1")
    if REPO in sys.path:
        sys.path.remove(REPO)
    sys.path.insert(0, REPO)
    import torch
    torch.set_num_threads(1)
    torch.set_default_dtype(torch.float32)
    # everything torch imports lazily is imported now, outside any per-case alarm (an alarm that fires in the middle of
    # `import sympy` inside torch.autograd leaves a half-initialised module behind and every later case crashes)
    import sympy  # noqa
    import sympy.logic  # noqa
    with torch.enable_grad():
        _x = torch.ones(2, dtype=torch.float64, requires_grad=True)
        _y = (_x * _x).sum()
        (_g,) = torch.autograd.grad(_y, _x, create_graph=True)
        torch.autograd.grad(_g.sum(), _x, allow_unused=True)
    import torchsde  # noqa
    got = os.path.realpath(os.path.dirname(os.path.dirname(torchsde.__file__)))
    if got != os.path.realpath(REPO):
        raise HarnessError(f"torchsde imported from {got}, expected {REPO}")
    return torchsde


def fresh_str(x):
    """An equal but distinct string object (what a name read from a config file, argparse or JSON is): option names must be
    compared by value, never by identity."""
    return x if not isinstance(x, str) else "".join(list(x))


GRAD_CTXS = ("no_grad", "inference", "grad")


def grad_ctx(name):
    """The autograd context a caller may be in when it asks for a solution: `torch.no_grad()`, `torch.inference_mode()` (the
    evaluation context PyTorch recommends; `torch.enable_grad()` does not switch recording back on inside it) or gradients
    enabled with nothing requiring them. What the library returns must not depend on it."""
    import torch
    return {"no_grad": torch.no_grad, "inference": torch.inference_mode, "grad": torch.enable_grad}[name or "no_grad"]()


def die_with_parent():
    """Worker processes must not outlive a check that is stopped from outside (PR_SET_PDEATHSIG, Linux only)."""
    try:
        import ctypes
        import signal
        ctypes.CDLL("libc.so.6", use_errno=True).prctl(1, signal.SIGKILL)
    except Exception:  # noqa
        pass


class HarnessError(Exception):
    """The machinery itself is broken (exit 2) - never reported as a violation."""


class CaseTimeout(Exception):
    """Per-case wall-clock guard fired: the case is inconclusive, never a violation."""


class WorkBudgetExceeded(Exception):
    """Deterministic work counter exceeded (stand-in for non-termination)."""


class Fail:
    __slots__ = ("clause", "msg", "sig")

    def __init__(self, clause, msg, sig=None):
        self.clause = clause          # which clause of the property failed (bucket key)
        self.msg = msg                # human readable
        self.sig = sig or {}          # key/value fields used to match KNOWN_FINDINGS signatures

    def to_json(self):
        return {"clause": self.clause, "msg": self.msg, "sig": self.sig}


class Result:
    __slots__ = ("nontrivial", "labels", "metrics", "fail", "checks")

    def __init__(self, nontrivial=False, labels=(), metrics=None, fail=None, checks=0):
        self.nontrivial = bool(nontrivial)
        self.labels = list(labels)
        self.metrics = metrics or {}  # name -> float, merged by max
        self.fail = fail
        self.checks = checks          # number of individual oracle comparisons made


def canon(obj):
    return json.dumps(obj, sort_keys=True, separators=(",", ":"), allow_nan=True)


def digest(obj):
    return hashlib.sha1(canon(obj).encode()).hexdigest()[:16]


def innermost_repo_frame(tb):
    """(file, func) of the innermost frame that lives in torchsde, or None."""
    frames = traceback.extract_tb(tb)
    hit = None
    for fr in frames:
        fn = fr.filename.replace("\\", "/")
        if "/torchsde/" in fn:
            hit = (fn.split("/torchsde/", 1)[1], fr.name)
    return hit


def innermost_frame(tb):
    frames = traceback.extract_tb(tb)
    fr = frames[-1]
    return fr.filename, fr.name, fr.lineno


def crash_fail(exc, extra_sig=None):
    """Turn an exception that escaped the code under test into a Fail (clause = crash:<Type>@<file>:<func>)."""
    if isinstance(exc, (CaseTimeout, HarnessError, KeyboardInterrupt)):
        raise exc                      # the per-case alarm / a harness defect is never a property violation
    hit = innermost_repo_frame(exc.__traceback__)
    if isinstance(exc, RecursionError):
        # the innermost frame of a RecursionError is arbitrary; bucket by the function that recurses
        import collections
        cnt = collections.Counter()
        for fr in traceback.extract_tb(exc.__traceback__):
            fn = fr.filename.replace("\\", "/")
            if "/torchsde/" in fn:
                cnt[(fn.split("/torchsde/", 1)[1], fr.name)] += 1
        if cnt:
            hit = cnt.most_common(1)[0][0]
    where = f"{hit[0]}:{hit[1]}" if hit else "outside-torchsde"
    clause = f"crash:{type(exc).__name__}@{where}"
    msg = f"{type(exc).__name__}: {str(exc)[:300]}"
    sig = {"exc": type(exc).__name__, "where": where}
    if extra_sig:
        sig.update(extra_sig)
    return Fail(clause, msg, sig)


def is_repo_exception(exc):
    """True when the exception was raised from inside torchsde (as opposed to harness code / torch called by us)."""
    frames = traceback.extract_tb(exc.__traceback__)
    if not frames:
        return False
    # innermost non-library frame: walk from the inside out until we hit torchsde or /verif
    for fr in reversed(frames):
        fn = fr.filename.replace("\\", "/")
        if "/torchsde/" in fn:
            return True
        if fn.startswith(VERIF_DIR):
            return False
    return False
