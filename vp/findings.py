"""KNOWN_FINDINGS.txt reader. Read-only at run time.

Line formats (one per line, '#' comments allowed):
  known: property=<id> sig=<k=v,k=v,...> <free text: what fails>
  fixed: property=<id> <commit> <free text: what failed>

A `known:` line matches a Fail of that property when every k=v of the signature equals str(fail.sig[k]) (or the
special key clause=<clause prefix>). `fixed:` lines suppress nothing; they are documentation.
"""
import os
import re

from .core import VERIF_DIR

PATH = os.path.join(VERIF_DIR, "KNOWN_FINDINGS.txt")


class Known:
    def __init__(self, prop, sig, text):
        self.prop, self.sig, self.text = prop, sig, text
        self.hits = 0

    def matches(self, prop, fail):
        if prop != self.prop:
            return False
        for k, v in self.sig.items():
            if k == "clause":
                if not fail.clause.startswith(v):
                    return False
            elif str(fail.sig.get(k)) != v:
                return False
        return True


def load(path=PATH):
    known, fixed = [], []
    if not os.path.exists(path):
        return known, fixed
    for line in open(path):
        line = line.strip()
        if not line or line.startswith("#"):
            continue
        m = re.match(r"known:\s+property=(\S+)\s+sig=(\S+)\s+(.*)", line)
        if m:
            sig = dict(kv.split("=", 1) for kv in m.group(2).split(",") if kv)
            known.append(Known(m.group(1), sig, m.group(3)))
            continue
        m = re.match(r"fixed:\s+property=(\S+)\s+(\S+)\s+(.*)", line)
        if m:
            fixed.append((m.group(1), m.group(2), m.group(3)))
            continue
        raise ValueError(f"unparseable line in KNOWN_FINDINGS.txt: {line}")
    return known, fixed


def match(known, prop, fail):
    for k in known:
        if k.matches(prop, fail):
            return k
    return None
