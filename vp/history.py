"""Generated Brownian configurations and query histories (plain data) + interpreter.

case = {"cfg": {...}, "ops": [[opname, args...], ...]}
Times are integer indices on a per-case grid of N cells over [t0, t1]; time(i) = t0 + (t1 - t0) * i / N, rounded to the
tolerance grid when tol > 0 (the property speaks of "resolved times" there).
"""
import math

from hypothesis import strategies as st

LEVY = ["none", "space-time", "davie", "foster"]
GRIDS = [16, 64, 100, 1000, 1 << 12, 1 << 20, 10 ** 6]
# tolerances: powers of ten and others (for which the library's rounding grid 10^-int(-log10 tol) is coarser than tol)
TOLS = [1e-2, 1e-3, 1e-6, 1e-2, 1e-3, 1e-6, 2e-3, 5e-4, 2.5e-6, 0.05]


def _one_in(n):
    """True with probability ~1/n (sampled_from has no boundary bias, unlike integers())."""
    return st.sampled_from([False] * (n - 1) + [True])


def ndigits_of(tol):
    return -int(math.log10(tol))


def time_of(cfg, i):
    t0, t1, n = cfg["t0"], cfg["t1"], cfg["grid"]
    if i <= 0:
        t = t0
    elif i >= n:
        t = t1
    else:
        t = t0 + (t1 - t0) * (i / n)
    if cfg["tol"] > 0:
        t = round(t, ndigits_of(cfg["tol"]))
    return min(max(t, t0), t1)


@st.composite
def configs(draw, wrappers=("interval",), allow_cache0=True, allow_dt=True, allow_tol=True, allow_halfway=True,
            shapes=None, levy=None, allow_user=True, max_pieces=4000, dtypes=("float64", "float32"), lattice=True):
    wrapper = draw(st.sampled_from(list(wrappers)))
    # mostly windows of size O(1) near the origin; sometimes far from it (|t| ~ 1e3: relative and absolute closeness of two
    # times are then different things)
    t0 = draw(st.sampled_from([0.0, 0.0, -1.0, -0.5, 0.25, 3.0, 0.0, -1.0, 0.25, 1000.0, -3000.0, 50000.0, -200000.0]))
    span = draw(st.sampled_from([1.0, 1.0, 0.5, 2.0, 10.0]))
    if wrapper == "path":
        span = 1.0
    t1 = t0 + span
    if shapes is None:
        shape = draw(st.one_of(st.just([]), st.lists(st.integers(1, 3), min_size=1, max_size=1),
                               st.lists(st.integers(1, 3), min_size=2, max_size=2),
                               st.lists(st.integers(1, 3), min_size=2, max_size=2),
                               # many entries: a last-bit difference somewhere is far more likely to show than with 1-9 numbers
                               st.sampled_from([[64], [16, 3], [7, 5], [200], [2, 3, 4]])))
    else:
        shape = list(draw(st.sampled_from(shapes)))
    lv = draw(st.sampled_from(levy or LEVY))
    # any non-negative Python int is a valid entropy: mostly 31-bit values, sometimes 0, sometimes beyond 2^53 (where a
    # round trip through a float would merge neighbours) and beyond 2^64
    entropy = draw(st.one_of(st.integers(0, 2 ** 31 - 2), st.integers(0, 2 ** 31 - 2), st.integers(0, 2 ** 31 - 2),
                             st.sampled_from([0, 2 ** 53, 2 ** 53 + 1, 2 ** 63 - 1, 2 ** 64 - 2, 2 ** 64 + 12345]),
                             st.integers(2 ** 53, 2 ** 64 - 2)))
    dtype = draw(st.sampled_from(list(dtypes)))
    cfg = {"wrapper": wrapper, "t0": t0, "t1": t1, "shape": shape, "levy": lv, "entropy": entropy, "dtype": dtype,
           "cache_size": 45, "dt": None, "tol": 0.0, "halfway": False, "user_W": False, "user_H": False,
           "grid": draw(st.sampled_from(GRIDS))}
    if wrapper in ("interval", "reverse", "reverse2"):
        sizes = [0, 1, 2, 5, 45, None] if allow_cache0 else [1, 2, 5, 45, None]
        cfg["cache_size"] = draw(st.sampled_from(sizes))
        if allow_halfway and allow_tol and draw(_one_in(4)):
            cfg["halfway"] = True
            cfg["tol"] = draw(st.sampled_from(TOLS))
        else:
            if allow_tol and draw(_one_in(4)):
                cfg["tol"] = draw(st.sampled_from(TOLS))
            if allow_dt and draw(_one_in(3)):
                cs = cfg["cache_size"]
                eff = 100 if cs is None else min(cs, 100)
                cands = [span / k for k in (4, 16, 100, 1000, 10000)
                         if span / ((span / k) * max(eff, 1) * 0.8) <= max_pieces]
                if cands:
                    cfg["dt"] = draw(st.sampled_from(cands))
        if allow_user:
            cfg["user_W"] = draw(_one_in(5))
            cfg["user_H"] = draw(_one_in(5)) and lv != "none"
        # the documented `device` argument (str or torch.device), also together with a user-supplied W / H
        cfg["device"] = draw(st.sampled_from([None, None, None, "cpu", "torch.device:cpu"]))
    elif wrapper == "tree":
        cfg["halfway"] = True
        cfg["tol"] = draw(st.sampled_from(TOLS))
        cfg["cache_size"] = 45
        if allow_user:
            cfg["user_W"] = draw(_one_in(4))      # w1 supplied
        cfg["levy"] = "none"
    elif wrapper == "path":
        cfg["cache_size"] = None
        cfg["levy"] = "none"
    # how times are handed over: the constructor's t0/t1 as 0-dim tensors which the caller changes in place afterwards (they
    # are the caller's), and query times in rotating forms (Python float / 0-dim float64 tensor / numpy float64 / 0-dim
    # float32 tensor) of exactly the same values - for that, query times are rounded to float32-representable values
    if wrapper in ("interval", "reverse", "reverse2", "tree"):
        cfg["t_tensor_mutated"] = draw(_one_in(5))
    if cfg["tol"] == 0:
        cfg["time_forms"] = draw(_one_in(5))
    if cfg["tol"] > 0:
        # keep the end points and the grid on the tolerance lattice (the library's rounding grid 10^-ndigits, which is
        # coarser than tol itself when tol is not a power of ten): the property speaks of resolved times
        nd = ndigits_of(cfg["tol"])
        if lattice:
            cfg["t0"] = round(cfg["t0"], nd)
            cfg["t1"] = round(cfg["t0"] + span, nd)
            if not cfg["t1"] > cfg["t0"]:
                cfg["t1"] = cfg["t0"] + 1.0
        elif draw(st.booleans()):
            # crash-freedom is claimed for every documented configuration, also when the end points of the interval are not
            # on the tolerance grid (values are only specified at resolved times, termination everywhere)
            cfg["t0"] = cfg["t0"] + draw(st.sampled_from([0.1234561, 1e-7, 0.00049, 0.3333333]))
            cfg["t1"] = cfg["t0"] + span + draw(st.sampled_from([0.0, 0.0004996, 1e-7]))
        cfg["grid"] = draw(st.sampled_from([g for g in (100, 1000, 10 ** 6) if g <= round(1 / cfg["tol"])] or [100]))
    return cfg


@st.composite
def op_lists(draw, cfg, min_ops=1, max_ops=12, max_sweep=40, allow_zero=True, allow_point=False):
    n = cfg["grid"]
    ops = []
    k = draw(st.integers(min_ops, max_ops))
    kinds = ["q", "q", "q", "sweep", "sweepback", "zoom", "req", "trial", "trial_re", "lastpiece", "leadpiece", "pad100"]
    if cfg["tol"] == 0:
        kinds.append("nudge")
        if abs(cfg["t0"]) >= 100:
            kinds += ["tinyq", "tinyq", "tinyq"]
    if allow_zero:
        kinds.append("zero")
    if allow_point:
        kinds += ["pt"] * (6 if cfg["wrapper"] == "path" else 2 if cfg["wrapper"] == "tree" else 1)
    special = [n // 2] if n % 2 == 0 else []
    if cfg["t0"] < 0 < cfg["t1"]:
        z = -cfg["t0"] / (cfg["t1"] - cfg["t0"]) * n
        if abs(z - round(z)) < 1e-9 and time_of(cfg, int(round(z))) == 0.0:
            special.append(int(round(z)))
    for _ in range(k):
        kind = draw(st.sampled_from(kinds))
        if kind == "q":
            i = draw(st.integers(0, n - 1))
            j = draw(st.integers(i + 1, n))
            if special and draw(st.sampled_from([False, False, True])):
                # one end point at a special time: the middle of the interval or the time 0.0 exactly
                k = draw(st.sampled_from(special))
                if k < j and draw(st.booleans()):
                    i = k
                elif k > i:
                    j = k
            ops.append(["q", i, j])
        elif kind in ("sweep", "sweepback"):
            cnt = draw(st.integers(2, max_sweep))
            w = draw(st.integers(1, max(1, n // cnt)))
            i0 = draw(st.integers(0, max(0, n - cnt * w)))
            ops.append([kind, i0, w, cnt])
        elif kind == "pad100":
            # push the history past the 100-query warm-up after which an inferred-dt object rebuilds its tree
            cnt = draw(st.integers(99, 130)) if max_sweep >= 30 else max_sweep
            w = draw(st.integers(1, max(1, n // cnt)))
            i0 = draw(st.integers(0, max(0, n - cnt * w)))
            ops.append(["sweep", i0, w, cnt])
        elif kind == "zoom":
            i = draw(st.integers(0, n - 1))
            j = draw(st.integers(i + 1, n))
            side = draw(st.integers(0, 1))
            ops.append(["zoom", i, j, side, draw(st.integers(2, 8))])
        elif kind == "req":
            ops.append(["req", draw(st.integers(0, 10 ** 6))])
        elif kind == "trial":
            i = draw(st.integers(0, n - 2))
            j = draw(st.integers(i + 2, n))
            ops.append(["trial", i, j])
        elif kind == "trial_re":
            # an interval, its two halves, k further fresh queries, then the interval again: whether the interval is still
            # cached, only its halves are, or nothing is, depends on k relative to cache_size
            i = draw(st.integers(0, n - 2))
            j = draw(st.integers(i + 2, n))
            cs = cfg.get("cache_size")
            ks = [0, 1, 2, 3, 5] + ([max(0, cs - 3), max(0, cs - 2), max(0, cs - 1), cs] if isinstance(cs, int) and cs <= 50
                                    else [])
            # where the k further queries go: -1 = ever shorter intervals starting at the left end of the interval (computed
            # from the cached left half, one new cache entry each), otherwise unit cells starting at that grid index
            ops.append(["trial_re", i, j, draw(st.sampled_from(ks)),
                        draw(st.one_of(st.just(-1), st.just(-1), st.integers(0, n - 1)))])
        elif kind == "tinyq":
            # far from the origin: an interval that is tiny relative to |t| (yet far above floating-point resolution),
            # asked for together with the two intervals it splits
            i = draw(st.integers(1, n - 2))
            ops.append(["tinyq", i, draw(st.sampled_from([1e-6, 3e-7, 1e-7, 1e-8]))])
        elif kind == "leadpiece":
            # [a,c], then a leading part [a,b] of it, then [a,c] again at once
            a_ = draw(st.integers(0, n - 2))
            c_ = draw(st.integers(a_ + 2, n))
            ops.append(["leadpiece", a_, draw(st.integers(a_ + 1, c_ - 1)), c_])
        elif kind == "nudge":
            # an existing knot b, then queries whose end point lies a few ulps INSIDE [a,b] resp. [b,c] (the literal 0.3
            # after an accumulated 0.30000000000000004): additivity must hold at floating-point resolution
            a_ = draw(st.integers(0, n - 3))
            b_ = draw(st.integers(a_ + 1, n - 2))
            ops.append(["nudge", a_, b_, draw(st.integers(b_ + 1, n)), draw(st.sampled_from([1, 2, 7, 1000, 5000]))])
        elif kind == "lastpiece":
            # [b,c], then [a,c] (answered from several stored pieces, [b,c] being the last), then [b,c] again at once
            a_ = draw(st.integers(0, n - 2))
            b_ = draw(st.integers(a_ + 1, n - 1))
            ops.append(["lastpiece", a_, b_, draw(st.integers(b_ + 1, n))])
        elif kind == "zero":
            ops.append(["zero", draw(st.integers(0, n))])
        elif kind == "pt":
            # point evaluation bm(t) (value at t, including w0 for BrownianPath/BrownianTree); dyadic points of the
            # interval are single tree nodes, so draw them often
            if draw(st.booleans()):
                ops.append(["pt", n // (2 ** draw(st.integers(0, 4)))])
            else:
                ops.append(["pt", draw(st.integers(0, n))])
    return ops


def expand(case):
    """Flat list of (ta, tb) float queries produced by the ops (ta <= tb, inside [t0, t1])."""
    cfg = case["cfg"]
    out = []

    def add(i, j):
        a, b = time_of(cfg, i), time_of(cfg, j)
        if a <= b:
            out.append((a, b))

    for op in case["ops"]:
        kind = op[0]
        if kind == "q":
            add(op[1], op[2])
        elif kind == "sweep":
            _, i0, w, cnt = op
            for s in range(cnt):
                add(i0 + s * w, i0 + (s + 1) * w)
        elif kind == "sweepback":
            _, i0, w, cnt = op
            for s in reversed(range(cnt)):
                add(i0 + s * w, i0 + (s + 1) * w)
        elif kind == "zoom":
            _, i, j, side, depth = op
            for _d in range(depth):
                add(i, j)
                mid = (i + j) // 2
                if mid == i or mid == j:
                    break
                if side:
                    i = mid
                else:
                    j = mid
        elif kind == "req":
            if out:
                out.append(out[op[1] % len(out)])
        elif kind == "trial":
            _, i, j = op
            m = (i + j) // 2
            add(i, j)
            add(i, m)
            add(m, j)
        elif kind == "trial_re":
            _, i, j, k, start = op
            m = (i + j) // 2
            add(i, j)
            add(i, m)
            add(m, j)
            if start < 0:
                a_, m_ = time_of(cfg, i), time_of(cfg, m)
                for s_ in range(1, k + 1):
                    b_ = a_ + (m_ - a_) / 2 ** s_
                    if cfg["tol"] > 0:
                        b_ = round(b_, ndigits_of(cfg["tol"]))
                    if a_ < b_ < m_:
                        out.append((a_, b_))
            else:
                for s_ in range(k):      # k fresh unit cells elsewhere (each a new single node once the tree is refined)
                    c = (start + s_) % cfg["grid"]
                    add(c, c + 1)
            add(i, j)
        elif kind == "tinyq":
            _, i_, frac = op
            ta_, tm_ = time_of(cfg, i_ - 1), time_of(cfg, i_)
            tb_ = tm_ + frac * (cfg["t1"] - cfg["t0"])
            tc_ = time_of(cfg, cfg["grid"])
            if ta_ < tm_ < tb_ < tc_:
                out.append((tm_, tb_))
                out.append((ta_, tb_))
                out.append((ta_, tm_))
                out.append((tb_, tc_))
        elif kind == "leadpiece":
            _, a_, b_, c_ = op
            add(a_, c_)
            add(a_, b_)
            add(a_, c_)
        elif kind == "nudge":
            _, a_, b_, c_, k_ = op
            ta_, tb_, tc_ = time_of(cfg, a_), time_of(cfg, b_), time_of(cfg, c_)
            eps_ = k_ * abs(math.ulp(tb_)) if tb_ != 0 else k_ * 5e-324
            if ta_ < tb_ - eps_ and tb_ + eps_ < tc_:
                out.append((ta_, tb_))
                out.append((tb_, tc_))
                out.append((ta_, tb_ - eps_))
                out.append((tb_ - eps_, tc_))
                out.append((tb_ + eps_, tc_))
                out.append((ta_, tc_))
        elif kind == "lastpiece":
            _, a_, b_, c_ = op
            add(b_, c_)
            add(a_, c_)
            add(b_, c_)
        elif kind == "zero":
            add(op[1], op[1])
        elif kind == "pt":             # point evaluation: represented as (None, t)
            out.append((None, time_of(cfg, op[1])))
        elif kind == "raw":            # explicit float times (used by dedicated generators / replays)
            out.append((float(op[1]), float(op[2])))
        else:
            raise ValueError(f"unknown op {op}")
    if cfg.get("time_forms") and cfg["tol"] == 0:
        import numpy as _np

        def r32(t):
            return None if t is None else min(max(float(_np.float32(t)), cfg["t0"]), cfg["t1"])
        out = [(r32(a), r32(b)) for a, b in out]
        out = [(a, b) for a, b in out if a is None or a <= b]
    return out


def build(cfg, torchsde, torch):
    """Instantiate the Brownian object described by cfg. Returns (callable bm(ta,tb)->tuple(W,U,A), interval, meta)."""
    dtype = getattr(torch, cfg["dtype"])
    shape = tuple(cfg["shape"])
    g = torch.Generator().manual_seed(cfg["entropy"] % (2 ** 31))
    span = cfg["t1"] - cfg["t0"]
    W = H = None
    if cfg.get("user_W"):
        W = torch.randn(shape, dtype=dtype, generator=g) * math.sqrt(span)
    if cfg.get("user_H"):
        H = torch.randn(shape, dtype=dtype, generator=g) * math.sqrt(span / 12)
    wrapper = cfg["wrapper"]
    if wrapper in ("interval", "reverse", "reverse2"):
        tt = torch.tensor([cfg["t0"], cfg["t1"]], dtype=torch.float64)
        t0_arg, t1_arg = (tt[0], tt[1]) if cfg.get("t_tensor_mutated") else (cfg["t0"], cfg["t1"])
        kw = dict(t0=t0_arg, t1=t1_arg, size=shape, dtype=dtype, entropy=cfg["entropy"],
                  cache_size=cfg["cache_size"], levy_area_approximation="".join(list(cfg["levy"])), tol=cfg["tol"],
                  halfway_tree=cfg["halfway"], W=None if W is None else W.clone(), H=None if H is None else H.clone())
        if cfg["dt"] is not None:
            kw["dt"] = cfg["dt"]
        if cfg.get("device"):
            kw["device"] = torch.device("cpu") if cfg["device"].startswith("torch.device") else cfg["device"]
        if "pool_size" in cfg:
            kw["pool_size"] = cfg["pool_size"]
        interval = torchsde.BrownianInterval(**kw)
        if cfg.get("t_tensor_mutated"):
            tt += 0.37            # the caller goes on using its own time tensor
        base = interval
        if wrapper == "reverse":
            rev = torchsde._brownian.ReverseBrownian(interval)
            base = lambda ta, tb, **k: rev(-tb, -ta, **k)  # noqa: E731
        elif wrapper == "reverse2":
            # reversing a reversed Brownian motion gives the original one back (what a reverse solve of a run that was
            # itself driven by a ReverseBrownian, e.g. a double backward, relies on)
            base = torchsde._brownian.ReverseBrownian(torchsde._brownian.ReverseBrownian(interval))
    elif wrapper == "path":
        w0 = torch.randn(shape, dtype=dtype, generator=g) + 2.0
        obj = torchsde.BrownianPath(t0=cfg["t0"], w0=w0.clone())
        interval = obj._interval
        base = obj
    elif wrapper == "tree":
        w0 = torch.randn(shape, dtype=dtype, generator=g)
        w1 = (w0 + W) if W is not None else None
        if W is not None:
            W = w1 - w0          # the increment the caller actually supplied (w1 - w0 in floating point)
        tt = torch.tensor([cfg["t0"], cfg["t1"]], dtype=torch.float64)
        t0_arg, t1_arg = (tt[0], tt[1]) if cfg.get("t_tensor_mutated") else (cfg["t0"], cfg["t1"])
        obj = torchsde.BrownianTree(t0=t0_arg, w0=w0.clone(), t1=t1_arg, w1=None if w1 is None else w1.clone(),
                                    entropy=cfg["entropy"], tol=cfg["tol"])
        if cfg.get("t_tensor_mutated"):
            tt += 0.37
        interval = obj._interval
        base = obj
    else:
        raise ValueError(wrapper)
    have_H = cfg["levy"] in ("space-time", "davie", "foster") and wrapper in ("interval", "reverse", "reverse2")
    have_A = cfg["levy"] in ("davie", "foster") and wrapper in ("interval", "reverse", "reverse2")

    handed = []          # (what, reference handed out by the library, its value at that moment)

    def keep(what, *xs):
        out = []
        for x in xs:
            c = x.clone()
            if len(handed) < 4000:
                handed.append((what, x, c))
            out.append(c)
        return out

    forms = cfg.get("time_forms") and cfg["tol"] == 0
    ncall = [0]

    def form(t):
        """The same time value in another representation (all exact: query times were rounded to float32 values)."""
        if not forms or t is None:
            return t
        k = ncall[0] % 4
        if k == 1:
            return torch.tensor(t, dtype=torch.float64)
        if k == 2:
            import numpy as _np
            return _np.float64(t)
        if k == 3:
            t32 = torch.tensor(t, dtype=torch.float32)
            return t32 if float(t32) == t else torch.tensor(t, dtype=torch.float64)
        return t

    def bm(ta, tb):
        ncall[0] += 1
        key_a, key_b = ta, tb
        ta, tb = form(ta), form(tb)
        # every tensor is cloned before the harness keeps it: a returned tensor may be (and for single-node queries is) the
        # very object the Brownian tree holds, and a reference to it would silently follow any later in-place change. The
        # reference is kept too (meta["handed_out"]): a tensor handed to the caller must not change afterwards either.
        if ta is None:
            # point evaluation
            if wrapper in ("reverse", "reverse2"):
                return keep((key_a, key_b), interval(cfg["t0"], tb))[0], None, None
            return keep((key_a, key_b), base(tb))[0], None, None
        if have_A:
            w, u, a = keep((key_a, key_b), *base(ta, tb, return_U=True, return_A=True))
            return w, u, a
        if have_H:
            w, u = keep((key_a, key_b), *base(ta, tb, return_U=True))
            return w, u, None
        return keep((key_a, key_b), base(ta, tb))[0], None, None

    def mutate_again():
        """The caller changes its own time tensor once more (mid-history)."""
        if cfg.get("t_tensor_mutated") and wrapper in ("interval", "reverse", "reverse2", "tree"):
            tt.sub_(0.21)

    meta = {"have_H": have_H, "have_A": have_A, "W": W, "H": H, "base": base, "mutate_again": mutate_again,
            "w0": w0 if wrapper in ("path", "tree") else None, "handed_out": handed}
    return bm, interval, meta


def modified_after_return(meta):
    """First tensor handed out by the Brownian object whose contents changed afterwards (None if there is none)."""
    for what, ref, val in meta["handed_out"]:
        if ref.shape != val.shape or not ((ref == val) | ((ref != ref) & (val != val))).all():
            return what
    return None
