"""SDE families with a path-wise closed-form solution that depends on the Brownian path only through W(t0, t)
(plus one non-commutative family with a fine Riemann reference). Specs are JSON; compile() gives an nn.Module with
per-row parameters (batch dimension) when `per_row` is set, so that gradient oracles are per path.

All coefficient functions are written in globally defined, Lipschitz closed form; phi^{-1} is applied only to y0, inside
the oracle.
"""
import math

import torch
from hypothesis import strategies as st
from torch import nn

PHI = ["exp", "arctan", "sinh", "gd"]


def _s(phi, y):
    if phi == "exp":
        return y
    if phi == "arctan":
        return torch.cos(y) ** 2
    if phi == "sinh":
        return torch.sqrt(1 + y * y)
    if phi == "gd":
        return torch.cos(y)
    raise ValueError(phi)


def _ds(phi, y):
    if phi == "exp":
        return torch.ones_like(y)
    if phi == "arctan":
        return -torch.sin(2 * y)
    if phi == "sinh":
        return y / torch.sqrt(1 + y * y)
    if phi == "gd":
        return -torch.sin(y)
    raise ValueError(phi)


def _phi(phi, x):
    if phi == "exp":
        return torch.exp(x)
    if phi == "arctan":
        return torch.atan(x)
    if phi == "sinh":
        return torch.sinh(x)
    if phi == "gd":
        return torch.asin(torch.tanh(x))
    raise ValueError(phi)


def _phi_inv(phi, y):
    if phi == "exp":
        return torch.log(y)
    if phi == "arctan":
        return torch.tan(y)
    if phi == "sinh":
        return torch.asinh(y)
    if phi == "gd":
        return torch.atanh(torch.sin(y))
    raise ValueError(phi)


def _tint(c, t0, t):
    """integral over [t0, t] of (1 + c cos s) ds"""
    return (t - t0) + c * (math.sin(t) - math.sin(t0))


# ---------------------------------------------------------------------------------------------------------------------
class Reducible(nn.Module):
    """Y_i = phi(a_i W + b_i * int(1 + c cos s) + phi^{-1}(y0_i)); diagonal noise (own W_i) or scalar noise (shared W)."""

    def __init__(self, spec, batch):
        super().__init__()
        self.spec = spec
        self.noise_type, self.sde_type, self.phi = spec["noise_type"], spec["sde_type"], spec["phi"]
        d = spec["d"]
        rows = batch if spec.get("per_row") else 1
        a = torch.tensor(spec["a"][:d], dtype=torch.float64).expand(rows, d).clone()
        b = torch.tensor(spec["b"][:d], dtype=torch.float64).expand(rows, d).clone()
        self.a, self.b = nn.Parameter(a), nn.Parameter(b)
        self.c = spec["c"]

    def f(self, t, y):
        s = _s(self.phi, y)
        out = self.b * (1 + self.c * torch.cos(t)) * s
        if self.sde_type == "ito":
            out = out + 0.5 * self.a ** 2 * s * _ds(self.phi, y)
        return out

    def g(self, t, y):
        g = self.a * _s(self.phi, y)
        return g if self.noise_type == "diagonal" else g.unsqueeze(-1)

    def y0(self, batch, seed):
        gen = torch.Generator().manual_seed(seed)
        x = torch.randn(batch, self.spec["d"], generator=gen, dtype=torch.float64) * 0.5
        if self.phi == "exp":
            return torch.exp(x * 0.6)
        if self.phi in ("arctan", "gd"):
            return torch.tanh(x) * 1.2
        return x

    def exact(self, y0, t0, t, W):
        w = W if self.noise_type == "diagonal" else W.expand(-1, self.spec["d"])
        x = self.a * w + self.b * _tint(self.c, t0, t) + _phi_inv(self.phi, y0)
        return _phi(self.phi, x)


class LinearCommuting(nn.Module):
    """dY = A(t) Y dt + sum_k B_k Y o dW_k with A, B_k polynomials in one non-symmetric matrix J."""

    def __init__(self, spec, batch):
        super().__init__()
        self.spec = spec
        self.noise_type, self.sde_type = "".join(list(spec["noise_type"])), "".join(list(spec["sde_type"]))
        d, m = spec["d"], spec["m"]
        gen = torch.Generator().manual_seed(spec["seed"])
        J = torch.randn(d, d, generator=gen, dtype=torch.float64)
        J = J - J.T * 0.6                        # far from symmetric
        J = J / max(1.0, float(torch.linalg.matrix_norm(J, 2)))
        self.register_buffer("J", J)
        rows = batch if spec.get("per_row") else 1
        self.alpha = nn.Parameter(torch.tensor(spec["alpha"][:2], dtype=torch.float64).expand(rows, 2).clone())
        self.beta = nn.Parameter(torch.tensor(spec["beta"], dtype=torch.float64)[:m, :2].expand(rows, m, 2).clone())
        self.c = spec["c"]

    def _A(self):
        I = torch.eye(self.spec["d"], dtype=torch.float64)
        return self.alpha[:, 0, None, None] * I + self.alpha[:, 1, None, None] * self.J          # (rows, d, d)

    def _B(self):
        I = torch.eye(self.spec["d"], dtype=torch.float64)
        return self.beta[..., 0, None, None] * I + self.beta[..., 1, None, None] * self.J        # (rows, m, d, d)

    def f(self, t, y):
        A = self._A() * (1 + self.c * torch.cos(t))
        if self.sde_type == "ito":
            B = self._B()
            A = A + 0.5 * (B @ B).sum(1)
        if A.size(0) == 1:
            A = A.expand(y.size(0), -1, -1)
        return torch.einsum("bij,bj->bi", A, y)

    def g(self, t, y):
        B = self._B()
        if B.size(0) == 1:
            B = B.expand(y.size(0), -1, -1, -1)
        return torch.einsum("bkij,bj->bik", B, y)                                              # (batch, d, m)

    def y0(self, batch, seed):
        gen = torch.Generator().manual_seed(seed)
        return torch.randn(batch, self.spec["d"], generator=gen, dtype=torch.float64) * 0.7 + 0.5

    def exact(self, y0, t0, t, W):
        A, B = self._A(), self._B()
        M = A * _tint(self.c, t0, t) + torch.einsum("bk,bkij->bij", W, B.expand(W.size(0), -1, -1, -1))
        return torch.einsum("bij,bj->bi", torch.linalg.matrix_exp(M), y0)


class ScaledAdditive(nn.Module):
    """Y = alpha(t) (y0/alpha(t0) + B(t) - B(t0) + C W),  alpha = exp(lam t) (1 + 0.3 sin(om t)),  B = beta sin t."""

    def __init__(self, spec, batch):
        super().__init__()
        self.spec = spec
        self.noise_type, self.sde_type = "".join(list(spec["noise_type"])), "".join(list(spec["sde_type"]))
        d, m = spec["d"], spec["m"]
        gen = torch.Generator().manual_seed(spec["seed"])
        rows = batch if spec.get("per_row") else 1
        C = torch.randn(d, m, generator=gen, dtype=torch.float64) * 0.6
        if self.noise_type == "diagonal":
            # only the diagonal entries are parameters (the declared SDE has no off-diagonal sensitivities)
            C = 0.4 + torch.rand(d, generator=gen, dtype=torch.float64)
            self.C = nn.Parameter(C.expand(rows, d).clone())
        else:
            self.C = nn.Parameter(C.expand(rows, d, m).clone())
        self.beta = nn.Parameter(torch.tensor(spec["beta"][:d], dtype=torch.float64).expand(rows, d).clone())
        self.lam = nn.Parameter(torch.full((rows, 1), float(spec["lam"]), dtype=torch.float64))
        self.om = spec["om"]

    def _alpha(self, t):
        return torch.exp(self.lam * t) * (1 + 0.3 * torch.sin(self.om * t))

    def _dlogalpha(self, t):
        return self.lam + 0.3 * self.om * torch.cos(self.om * t) / (1 + 0.3 * torch.sin(self.om * t))

    def f(self, t, y):
        t = torch.as_tensor(t, dtype=torch.float64)
        return self._dlogalpha(t) * y + self._alpha(t) * self.beta * torch.cos(t)

    def g(self, t, y):
        t = torch.as_tensor(t, dtype=torch.float64)
        if self.noise_type == "diagonal":
            G = self._alpha(t) * self.C
            return G.expand(y.size(0), -1) if G.size(0) == 1 else G
        G = self._alpha(t).unsqueeze(-1) * self.C
        if G.size(0) == 1:
            G = G.expand(y.size(0), -1, -1)
        return G

    def y0(self, batch, seed):
        gen = torch.Generator().manual_seed(seed)
        return torch.randn(batch, self.spec["d"], generator=gen, dtype=torch.float64)

    def exact(self, y0, t0, t, W):
        t0_, t_ = torch.tensor(t0, dtype=torch.float64), torch.tensor(t, dtype=torch.float64)
        if self.noise_type == "diagonal":
            CW = self.C * W
        else:
            C = self.C if self.C.size(0) > 1 else self.C.expand(W.size(0), -1, -1)
            CW = torch.einsum("bij,bj->bi", C, W)
        inner = y0 / self._alpha(t0_) + self.beta * (math.sin(t) - math.sin(t0)) + CW
        return self._alpha(t_) * inner


class TriangularNC(nn.Module):
    """Non-commutative general noise: dY1 = dW1, dY2 = Y1 o dW2 + drift. Reference by a fine Stratonovich sum."""

    def __init__(self, spec, batch):
        super().__init__()
        self.spec = spec
        self.noise_type, self.sde_type = "general", spec["sde_type"]
        self.kappa = nn.Parameter(torch.tensor(float(spec["kappa"]), dtype=torch.float64))

    def f(self, t, y):
        # Ito and Stratonovich coincide here: the correction 1/2 sum_k Dg_k g_k vanishes (g_2 depends on y1 only,
        # and column 2 has no y1 component)
        return torch.stack([torch.zeros_like(y[:, 0]), self.kappa * torch.cos(t) * torch.ones_like(y[:, 1])], dim=1)

    def g(self, t, y):
        z, o = torch.zeros_like(y[:, 0]), torch.ones_like(y[:, 0])
        return torch.stack([torch.stack([o, z], dim=1), torch.stack([z, y[:, 0]], dim=1)], dim=1)   # (B, 2, 2)

    def y0(self, batch, seed):
        gen = torch.Generator().manual_seed(seed)
        return torch.randn(batch, 2, generator=gen, dtype=torch.float64) * 0.5

    def exact_riemann(self, y0, t0, t1, bm, delta):
        n = max(1, int(round((t1 - t0) / delta)))
        h = (t1 - t0) / n
        y1 = y0[:, 0].clone()
        acc = torch.zeros_like(y1)
        for k in range(n):
            dW = bm(t0 + k * h, t0 + (k + 1) * h if k < n - 1 else t1)
            acc = acc + (y1 + 0.5 * dW[:, 0]) * dW[:, 1]
            y1 = y1 + dW[:, 0]
        y2 = y0[:, 1] + acc + float(self.kappa) * (math.sin(t1) - math.sin(t0))
        return torch.stack([y1, y2], dim=1)


class AdditiveNL(nn.Module):
    """Additive noise with a drift that is NON-linear in the state: dY_i = k_i sin(Y_i + c t) dt + sum_j G_ij(t) dW_j,
    G(t) = C (1 + 0.3 sin(om t)). No closed form; the reference is the order-1.5 strong Taylor scheme written out by hand
    (needs W and the space-time integral U of the same Brownian object) at a step far below the ladder."""

    def __init__(self, spec, batch):
        super().__init__()
        self.spec = spec
        self.noise_type, self.sde_type = "".join(list(spec["noise_type"])), "".join(list(spec["sde_type"]))
        d, m = spec["d"], spec["m"]
        gen = torch.Generator().manual_seed(spec["seed"])
        self.k = nn.Parameter(torch.tensor(spec["k"][:d], dtype=torch.float64))
        self.C = nn.Parameter(torch.randn(d, m, generator=gen, dtype=torch.float64) * 0.6 + 0.3)
        self.c, self.om = float(spec["c"]), float(spec["om"])

    def _s(self, t):
        return 1 + 0.3 * math.sin(self.om * float(t))

    def f(self, t, y):
        return self.k * torch.sin(y + self.c * t)

    def g(self, t, y):
        G = self.C * (1 + 0.3 * torch.sin(self.om * torch.as_tensor(t, dtype=torch.float64)))
        return G.unsqueeze(0).expand(y.size(0), -1, -1)

    def y0(self, batch, seed):
        gen = torch.Generator().manual_seed(seed)
        return torch.randn(batch, self.spec["d"], generator=gen, dtype=torch.float64)

    def exact_riemann(self, y0, t0, t1, bm, delta):
        n = max(1, int(round((t1 - t0) / delta)))
        h = (t1 - t0) / n
        y = y0.clone()
        k, C, c, om = self.k.detach(), self.C.detach(), self.c, self.om
        gg = (C * C).sum(1)                                   # diag of C C^T
        for i in range(n):
            ta = t0 + i * h
            tb = t0 + (i + 1) * h if i < n - 1 else t1
            W, U = bm(ta, tb, return_U=True)
            s, ds = 1 + 0.3 * math.sin(om * ta), 0.3 * om * math.cos(om * ta)
            arg = y + c * ta
            f, fy, fyy, ft = k * torch.sin(arg), k * torch.cos(arg), -k * torch.sin(arg), k * c * torch.cos(arg)
            GW, GU = (W @ C.t()) * s, (U @ C.t()) * s
            y = y + f * h + GW + fy * GU + 0.5 * h * h * (ft + fy * f + 0.5 * fyy * gg * s * s) \
                + ds * ((W @ C.t()) * h - (U @ C.t()))
        return y


FAMILIES = {"additive_nl": AdditiveNL, "reducible": Reducible, "linear_commuting": LinearCommuting, "scaled_additive": ScaledAdditive,
            "triangular_nc": TriangularNC}


def compile_spec(spec, batch):
    return FAMILIES[spec["family"]](spec, batch)


def _coef(lo, hi):
    return st.integers(int(lo * 100), int(hi * 100)).map(lambda k: k / 100.0)


@st.composite
def closed_specs(draw, sde_type, noise_type, per_row=False, allow_nc=True):
    """A closed-form family valid for the declared noise type."""
    if noise_type == "diagonal":
        fam = draw(st.sampled_from(["reducible", "reducible", "reducible", "scaled_additive"]))
    elif noise_type == "scalar":
        fam = draw(st.sampled_from(["reducible", "linear_commuting", "linear_commuting"]))
    elif noise_type == "additive":
        fam = draw(st.sampled_from(["scaled_additive", "scaled_additive", "additive_nl"]))
    else:
        fams = ["linear_commuting", "linear_commuting", "scaled_additive"] + (["triangular_nc"] if allow_nc else [])
        fam = draw(st.sampled_from(fams))
    spec = {"family": fam, "sde_type": sde_type, "noise_type": noise_type, "per_row": per_row,
            "seed": draw(st.integers(0, 2 ** 31 - 1)), "c": draw(st.sampled_from([0.0, 0.5, -0.8]))}
    if fam == "reducible":
        d = draw(st.integers(1, 3))
        spec.update({"d": d, "m": d if noise_type == "diagonal" else 1, "phi": draw(st.sampled_from(PHI)),
                     "a": draw(st.lists(st.one_of(_coef(0.3, 1.0), _coef(-1.0, -0.3)), min_size=3, max_size=3)),
                     "b": draw(st.lists(_coef(-0.8, 0.8), min_size=3, max_size=3))})
    elif fam == "linear_commuting":
        d = draw(st.integers(2, 3))
        m = 1 if noise_type == "scalar" else draw(st.integers(1, 3))
        spec.update({"d": d, "m": m, "alpha": [draw(_coef(-0.6, 0.3)), draw(_coef(-0.8, 0.8))],
                     "beta": [[draw(_coef(-0.5, 0.5)), draw(st.one_of(_coef(0.3, 0.9), _coef(-0.9, -0.3)))]
                              for _ in range(3)]})
    elif fam == "additive_nl":
        spec.update({"d": draw(st.integers(1, 2)), "m": draw(st.integers(1, 3)),
                     "k": draw(st.lists(st.one_of(_coef(0.8, 2.0), _coef(-2.0, -0.8)), min_size=2, max_size=2)),
                     "om": draw(st.sampled_from([0.0, 1.0, 3.0]))})
    elif fam == "scaled_additive":
        d = draw(st.integers(1, 3))
        m = d if noise_type == "diagonal" else draw(st.integers(1, 3))
        spec.update({"d": d, "m": m, "beta": draw(st.lists(_coef(-1.0, 1.0), min_size=3, max_size=3)),
                     "lam": draw(_coef(-0.8, 0.5)), "om": draw(st.sampled_from([0.0, 1.0, 3.0]))})
    else:
        spec.update({"d": 2, "m": 2, "kappa": draw(_coef(-1.0, 1.0))})
    return spec
