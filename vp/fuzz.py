"""Coverage-guided secondary engine: atheris (libFuzzer) drives the *same* Hypothesis strategies and the *same* run_case
oracles through `hypothesis.fuzz_one_input`, with coverage feedback from the instrumented torchsde package.

Two halves:
  * worker  `python -m vp.fuzz worker <PROP> <tier> <outdir> [libFuzzer flags]` - one libFuzzer process. The target decodes
    the bytes into a case with the property's strategy, evaluates it with the property's run_case, writes a JSON replay
    `<outdir>/viol-<digest>.json` and raises when an unlisted failure is found (libFuzzer then stops and keeps the bytes).
    Counters are flushed to `<outdir>/counters.json` every 50 executions (atexit does not run under libFuzzer).
  * driver  `drive(prop, tier, seed)` - called by the runner after the Hypothesis search: starts K workers with distinct
    seeds and fresh corpus directories, waits, collects counters and violations.

A time limit hit, a worker that cannot start (atheris not installed), or an exception in harness code is *inconclusive*:
recorded in the evidence, never a violation, never a non-zero exit. Only a failing run_case result whose replay file
fails again when re-evaluated in the driver process (without instrumentation) is reported.
"""
import glob
import json
import os
import re
import shutil
import subprocess
import sys
import tempfile
import time

from . import core

DEPS = os.path.join(core.VERIF_DIR, ".deps")


def _have_atheris():
    return os.path.isdir(os.path.join(DEPS, "atheris"))


# ------------------------------------------------------------------------------------------------- worker
def worker(argv):
    prop_id, tier, outdir = argv[0], argv[1], argv[2]
    flags = argv[3:]
    core.die_with_parent()
    sys.path.insert(0, DEPS)
    import atheris
    if core.REPO in sys.path:
        sys.path.remove(core.REPO)
    sys.path.insert(0, core.REPO)
    import torch  # noqa  (not instrumented)
    with atheris.instrument_imports(include=["torchsde"]):
        import torchsde  # noqa
    core.setup_imports()
    import hypothesis
    from hypothesis import HealthCheck, given, settings
    from . import findings
    from .runner import load_prop
    prop = load_prop(prop_id)
    known, _ = findings.load()
    counters = {"executions": 0, "valid_cases": 0, "nontrivial": 0, "failed_known": 0, "harness_errors": 0,
                "labels": {}, "last_harness_error": None}
    seen = set()

    def flush():
        tmp = os.path.join(outdir, "counters.json.tmp")
        with open(tmp, "w") as fh:
            json.dump(counters, fh)
        os.replace(tmp, os.path.join(outdir, "counters.json"))

    class _Found(Exception):
        pass

    def body(case):
        counters["valid_cases"] += 1
        try:
            res = prop.run_case(case)
        except RecursionError as e:
            if core.innermost_repo_frame(e.__traceback__):
                res = core.Result(nontrivial=True, fail=core.crash_fail(e), labels=["crash"])
            else:
                counters["harness_errors"] += 1
                return
        except Exception as e:  # noqa
            if core.is_repo_exception(e) or getattr(prop, "ALL_EXCEPTIONS_ARE_CRASHES", False):
                res = core.Result(nontrivial=True, fail=core.crash_fail(e), labels=["crash"])
            else:
                counters["harness_errors"] += 1
                counters["last_harness_error"] = f"{type(e).__name__}: {str(e)[:200]}"
                return
        if res.nontrivial:
            d = core.digest(case)
            if d not in seen:
                seen.add(d)
                counters["nontrivial"] += 1
        for lab in res.labels:
            counters["labels"][lab] = counters["labels"].get(lab, 0) + 1
        if res.fail is not None:
            if findings.match(known, prop.ID, res.fail) is not None:
                counters["failed_known"] += 1
                return
            name = f"viol-{core.digest([res.fail.clause, case])}.json"
            with open(os.path.join(outdir, name), "w") as fh:
                json.dump({"property": prop.ID, "case": case, "fail": res.fail.to_json(), "tier": tier,
                           "engine": "atheris+hypothesis.fuzz_one_input"}, fh, indent=1, default=str)
            flush()
            raise _Found(res.fail.clause)

    test = given(prop.strategy(tier))(body)
    test = settings(database=None, deadline=None, suppress_health_check=list(HealthCheck))(test)
    fuzz_one = test.hypothesis.fuzz_one_input

    def target(data):
        counters["executions"] += 1
        if counters["executions"] % 50 == 0:
            flush()
        fuzz_one(data)

    os.makedirs(outdir, exist_ok=True)
    corpus = os.path.join(outdir, "corpus")
    os.makedirs(corpus, exist_ok=True)
    # Starting corpus: random byte strings of several lengths drawn from a PRNG seeded by the -seed flag. Hypothesis itself is
    # not instrumented, so inputs it rejects (too short for the strategy) give libFuzzer no gradient: from an empty corpus it
    # would keep mutating one-byte inputs that never reach the library.
    import random as _random
    m_ = [f for f in flags if f.startswith("-seed=")]
    rnd_ = _random.Random(int(m_[0].split("=")[1]) if m_ else 1)
    for k_, n_ in enumerate([256, 1024, 4096, 16384] * 4):
        with open(os.path.join(corpus, f"seed{k_:02d}"), "wb") as fh:
            fh.write(bytes(rnd_.getrandbits(8) for _ in range(n_)))
    flush()
    atheris.Setup([sys.argv[0]] + flags + [f"-artifact_prefix={outdir}/", corpus], target)
    atheris.Fuzz()


# ------------------------------------------------------------------------------------------------- driver
def drive(prop, tier, seed, runs, procs, wall_s, max_len=16384):
    """Returns (violations, coverage). violations = list of {'case','fail'} confirmed by re-evaluation in this process."""
    cov = {"fuzz_engine": "atheris 3.1 (libFuzzer) over hypothesis.fuzz_one_input of the same strategy/oracle",
           "fuzz_processes": procs, "fuzz_runs_requested_per_process": runs}
    if not _have_atheris():
        cov["fuzz_skipped"] = "atheris is not installed under /verif/.deps (setup.sh installs it from the wheelhouse)"
        return [], cov
    base = tempfile.mkdtemp(prefix=f"vpfuzz-{prop.ID}-", dir=os.environ.get("VERIF_SCRATCH", None))
    env = dict(os.environ, PYTHONHASHSEED="0", OMP_NUM_THREADS="1", MKL_NUM_THREADS="1")
    procs_l = []
    try:
        for k in range(procs):
            out = os.path.join(base, f"w{k}")
            os.makedirs(out)
            cmd = [sys.executable, "-W", "ignore", "-m", "vp.fuzz", "worker", prop.ID, tier, out,
                   f"-runs={runs}", f"-seed={(seed * 7919 + k * 104729) % (2 ** 31 - 1) + 1}", f"-max_len={max_len}",
                   "-len_control=0", "-timeout=600", "-rss_limit_mb=8192", "-print_final_stats=1"]
            log = open(os.path.join(out, "log.txt"), "w")
            procs_l.append((subprocess.Popen(cmd, cwd=core.VERIF_DIR, env=env, stdout=log, stderr=subprocess.STDOUT),
                            out, log))
        deadline = time.time() + wall_s
        stopped = 0
        for p, out, log in procs_l:
            try:
                p.wait(timeout=max(1.0, deadline - time.time()))
            except subprocess.TimeoutExpired:
                p.kill()
                p.wait()
                stopped += 1
            log.close()
        tot = {"executions": 0, "valid_cases": 0, "nontrivial": 0, "failed_known": 0, "harness_errors": 0}
        labels = {}
        last_err = None
        edges = []
        viols = []
        for p, out, _ in procs_l:
            try:
                c = json.load(open(os.path.join(out, "counters.json")))
            except Exception:  # noqa
                c = {}
            for k in tot:
                tot[k] += c.get(k, 0)
            for k, v in c.get("labels", {}).items():
                labels[k] = labels.get(k, 0) + v
            last_err = c.get("last_harness_error") or last_err
            try:
                txt = open(os.path.join(out, "log.txt"), errors="replace").read()
            except Exception:  # noqa
                txt = ""
            m = re.findall(r"cov: (\d+)", txt)
            if m:
                edges.append(int(m[-1]))
            for path in sorted(glob.glob(os.path.join(out, "viol-*.json"))):
                viols.append(json.load(open(path)))
            if not c and "Traceback" in txt:
                last_err = last_err or txt.strip().splitlines()[-1][:200]
        cov.update({"fuzz_executions": tot["executions"], "fuzz_valid_cases": tot["valid_cases"],
                    "fuzz_distinct_nontrivial": tot["nontrivial"], "fuzz_known_finding_cases": tot["failed_known"],
                    "fuzz_inconclusive_harness_exceptions": tot["harness_errors"],
                    "fuzz_processes_stopped_on_wall_budget": stopped,
                    "fuzz_edges_covered_in_torchsde_max": max(edges) if edges else None,
                    "fuzz_label_histogram": dict(sorted(labels.items()))})
        if last_err:
            cov["fuzz_last_harness_exception"] = last_err
        # confirm every reported failure in this (uninstrumented) process before believing it
        from . import findings
        from .runner import evaluate
        known, _ = findings.load()
        confirmed = []
        seen = set()
        for v in viols:
            res = evaluate(prop, v["case"], prop.BUDGET[tier].get("case_timeout", 120))
            if res.fail is None or findings.match(known, prop.ID, res.fail) is not None:
                cov["fuzz_unconfirmed_reports"] = cov.get("fuzz_unconfirmed_reports", 0) + 1
                continue
            if res.fail.clause in seen:
                continue
            seen.add(res.fail.clause)
            confirmed.append({"case": v["case"], "fail": res.fail.to_json(), "shrunk": False})
        return confirmed, cov
    finally:
        shutil.rmtree(base, ignore_errors=True)


if __name__ == "__main__":
    if len(sys.argv) >= 5 and sys.argv[1] == "worker":
        worker(sys.argv[2:])
    else:
        print("usage: python -m vp.fuzz worker <PROP> <tier> <outdir> [libFuzzer flags]")
        sys.exit(2)
