"""CLI: python -m vp.runner <PROP> --tier quick|thorough [--replay PATH] [--examples N] [--shards K]

Exit codes: 0 = property held on everything explored (KNOWN-FINDING lines allowed), 1 = VIOLATION line(s) printed,
2 = harness error (never a violation).
"""
import argparse
import collections
import importlib
import json
import multiprocessing
import os
import signal
import sys
import time
import traceback

from . import core, findings
from .core import CaseTimeout, Fail, HarnessError, Result, canon, digest

MAX_ROUNDS = 4           # at most this many distinct failure buckets are shrunk per shard
SHRINK_CALLS = {"quick": 120, "thorough": 800}
MAX_SAMPLES = 10


class _Violation(Exception):
    pass


class _StopSearch(Exception):
    pass


def _alarm_handler(signum, frame):
    raise CaseTimeout()


def load_prop(prop_id):
    return importlib.import_module(f"vp.props.{prop_id.lower()}")


def evaluate(prop, case, timeout_s):
    """Run one case. Returns Result. Exceptions from inside torchsde become crash Fails; harness exceptions propagate."""
    signal.signal(signal.SIGALRM, _alarm_handler)
    signal.alarm(int(timeout_s))
    try:
        res = prop.run_case(case)
        signal.alarm(0)
        if not isinstance(res, Result):
            raise HarnessError("run_case must return Result")
        return res
    except CaseTimeout:
        signal.alarm(0)
        return Result(labels=["inconclusive:case_timeout"])
    except (HarnessError, KeyboardInterrupt):
        signal.alarm(0)
        raise
    except RecursionError as e:
        signal.alarm(0)
        if core.innermost_repo_frame(e.__traceback__):
            return Result(nontrivial=True, fail=core.crash_fail(e), labels=["crash"])
        raise
    except Exception as e:  # noqa
        signal.alarm(0)
        if core.is_repo_exception(e) or getattr(prop, "ALL_EXCEPTIONS_ARE_CRASHES", False):
            return Result(nontrivial=True, fail=core.crash_fail(e), labels=["crash"])
        raise HarnessError(f"exception in harness code: {type(e).__name__}: {e}\n{traceback.format_exc()}") from e
    finally:
        signal.alarm(0)


class Stats:
    def __init__(self):
        self.evaluations = 0
        self.nontrivial = set()
        self.labels = collections.Counter()
        self.metrics = {}
        self.checks = 0
        self.excluded_known = collections.Counter()
        self.known_text = {}
        self.samples = []
        self.sample_labels = set()
        self.violations = []
        self.timeouts = 0
        self.stopped_early = False
        self.shrink_calls = 0

    def record(self, case, res):
        self.evaluations += 1
        self.checks += res.checks
        if res.nontrivial:
            self.nontrivial.add(digest(case))
        if res.fail is not None:
            self.labels[f"FAILED:{res.fail.clause}"] += 1
        for lab in res.labels:
            self.labels[lab] += 1
            if lab.startswith("inconclusive"):
                self.timeouts += 1
        for k, v in res.metrics.items():
            try:
                v = float(v)
            except Exception:
                continue
            if v != v:
                continue
            if k.startswith("min:"):
                self.metrics[k] = min(self.metrics.get(k, v), v)
            else:
                self.metrics[k] = max(self.metrics.get(k, v), v)
        if res.nontrivial and res.fail is None:
            new = [l for l in res.labels if l not in self.sample_labels]
            if len(self.samples) < 3 or (new and len(self.samples) < MAX_SAMPLES):
                self.samples.append(_truncate(case))
                self.sample_labels.update(res.labels)

    def to_dict(self):
        return {
            "evaluations": self.evaluations, "nontrivial": sorted(self.nontrivial), "labels": dict(self.labels),
            "metrics": self.metrics, "checks": self.checks, "excluded_known": dict(self.excluded_known),
            "known_text": self.known_text, "samples": self.samples, "violations": self.violations,
            "timeouts": self.timeouts, "stopped_early": self.stopped_early, "shrink_calls": self.shrink_calls,
        }


def _truncate(obj, max_list=24):
    if isinstance(obj, dict):
        return {k: _truncate(v, max_list) for k, v in obj.items()}
    if isinstance(obj, (list, tuple)):
        if len(obj) > max_list:
            return [_truncate(v, max_list) for v in obj[:max_list]] + [f"... ({len(obj) - max_list} more)"]
        return [_truncate(v, max_list) for v in obj]
    return obj


def bucket_of(fail):
    return fail.clause


def run_shard(args):
    prop_id, tier, seed, shard, nshards, examples, wall_budget = args
    if nshards > 1:
        core.die_with_parent()
    core.setup_imports()
    deadline_ts = time.time() + wall_budget      # counted from the moment this shard is ready to generate
    import hypothesis
    from hypothesis import HealthCheck, Phase, given, settings
    prop = load_prop(prop_id)
    known, _ = findings.load()
    stats = Stats()
    budget = prop.BUDGET[tier]
    timeout_s = budget.get("case_timeout", 60)
    excluded = set()

    def handle(case, res, state):
        """Common post-processing; returns True when this case must raise to Hypothesis."""
        if res.fail is None:
            return False
        k = findings.match(known, prop.ID, res.fail)
        if k is not None:
            if state["phase"] == "generate":
                stats.excluded_known[k.text] += 1
            return False
        b = bucket_of(res.fail)
        if b in excluded:
            return False
        if state["target"] is None:
            state["target"] = b
            state["phase"] = "shrink"
            state["failing"].add(canon(case))
            state["final"] = (case, res)
            return True
        if b != state["target"]:
            return False
        c = canon(case)
        if state["shrinks"] >= SHRINK_CALLS[tier]:
            if c in state["failing"]:
                state["final"] = (case, res)
                return True
            return False
        state["failing"].add(c)
        state["final"] = (case, res)
        return True

    # ---- saved reproductions of listed known findings: re-run on every check (shard 0) ---------------------------
    if shard == 0:
        import glob
        for path in sorted(glob.glob(os.path.join(core.VERIF_DIR, "known_replays", f"{prop.ID}-*.json"))):
            case = json.load(open(path))["case"]
            res = evaluate(prop, case, timeout_s)
            stats.record(case, res)
            if res.fail is not None:
                k = findings.match(known, prop.ID, res.fail)
                if k is not None:
                    stats.excluded_known[k.text] += 1
                else:
                    stats.violations.append({"case": case, "fail": res.fail.to_json(), "shrunk": False})
                    excluded.add(bucket_of(res.fail))
            else:
                stats.labels[f"known_finding_no_longer_reproduces:{os.path.basename(path)}"] += 1

    # ---- enumerated cases (finite domains), sharded by index -------------------------------------------------
    if hasattr(prop, "enumerate_cases"):
        state = {"phase": "generate", "target": None, "failing": set(), "final": None, "shrinks": 0}
        for i, case in enumerate(prop.enumerate_cases(tier)):
            if i % nshards != shard:
                continue
            res = evaluate(prop, case, timeout_s)
            stats.record(case, res)
            if res.fail is not None:
                k = findings.match(known, prop.ID, res.fail)
                if k is not None:
                    stats.excluded_known[k.text] += 1
                    continue
                b = bucket_of(res.fail)
                if b in excluded:
                    continue
                excluded.add(b)
                stats.violations.append({"case": case, "fail": res.fail.to_json(), "shrunk": False})

    # ---- generated cases ------------------------------------------------------------------------------------
    remaining = examples
    rounds = 0
    while remaining > 0 and rounds < MAX_ROUNDS and hasattr(prop, "strategy"):
        state = {"phase": "generate", "target": None, "failing": set(), "final": None, "shrinks": 0}
        before = stats.evaluations

        def body(case):
            if state["phase"] == "generate" and time.time() > deadline_ts:
                stats.stopped_early = True
                raise _StopSearch()
            res = evaluate(prop, case, timeout_s)
            if state["phase"] == "generate":
                stats.record(case, res)
            else:
                state["shrinks"] += 1
                stats.shrink_calls += 1
            if handle(case, res, state):
                raise _Violation()

        phases = [Phase.generate, Phase.shrink]
        test = given(prop.strategy(tier))(body)
        test = settings(max_examples=remaining, database=None, deadline=None, phases=phases, derandomize=False,
                        report_multiple_bugs=False, print_blob=False,
                        suppress_health_check=[HealthCheck.too_slow, HealthCheck.data_too_large,
                                               HealthCheck.large_base_example])(test)
        test = hypothesis.seed(seed * 100003 + shard * 101 + rounds)(test)
        try:
            test()
        except _StopSearch:
            break
        except _Violation:
            case, res = state["final"]
            excluded.add(state["target"])
            stats.violations.append({"case": case, "fail": res.fail.to_json(), "shrunk": True})
        except hypothesis.errors.Flaky:
            # the same case failed once and passed once inside this process: its outcome depends on state outside the case
            # (possibly state leaking between calls in the code under test). The saved case is judged in a fresh process
            # like every other failure; if it holds there it is only recorded.
            stats.labels["flaky_in_process"] += 1
            if state["final"] is not None:
                case, res = state["final"]
                excluded.add(state["target"])
                stats.violations.append({"case": case, "fail": res.fail.to_json(), "shrunk": False})
            rounds += 1
            remaining -= max(stats.evaluations - before, 1)
            continue
        used = max(stats.evaluations - before, 1)
        remaining -= used
        rounds += 1
        if state["target"] is None:
            break
    return stats.to_dict()


def merge(dicts):
    out = Stats()
    nontrivial = set()
    for d in dicts:
        out.evaluations += d["evaluations"]
        nontrivial.update(d["nontrivial"])
        out.labels.update(d["labels"])
        for k, v in d["metrics"].items():
            if k.startswith("min:"):
                out.metrics[k] = min(out.metrics.get(k, v), v)
            else:
                out.metrics[k] = max(out.metrics.get(k, v), v)
        out.checks += d["checks"]
        out.excluded_known.update(d["excluded_known"])
        out.timeouts += d["timeouts"]
        out.stopped_early |= d["stopped_early"]
        out.shrink_calls += d["shrink_calls"]
        for s in d["samples"]:
            if len(out.samples) < MAX_SAMPLES:
                out.samples.append(s)
        out.violations.extend(d["violations"])
    out.nontrivial = nontrivial
    return out


def write_evidence(prop, tier, seed, stats, wall, nviol, extra=None):
    os.makedirs(os.path.join(core.OUT_DIR, "evidence"), exist_ok=True)
    cov = {
        "evaluations": stats.evaluations,
        "distinct_nontrivial": len(stats.nontrivial),
        "rule": prop.RULE,
        "samples": stats.samples[:MAX_SAMPLES],
        "oracle_comparisons": stats.checks,
        "label_histogram": dict(sorted(stats.labels.items())),
        "worst_observed": {k: stats.metrics[k] for k in sorted(stats.metrics)},
        "tolerances": getattr(prop, "TOLERANCES", {}),
        "excluded_known_findings": dict(stats.excluded_known),
        "inconclusive_timeouts": stats.timeouts,
        "stopped_early_on_wall_budget": stats.stopped_early,
        "shrink_calls": stats.shrink_calls,
        "exhaustive": bool(getattr(prop, "EXHAUSTIVE", False)),
        "repo": core.REPO,
    }
    if extra:
        cov.update(extra)
    ev = {
        "property_id": prop.ID, "tier": tier, "seed": seed, "level": getattr(prop, "LEVEL", "exploration"),
        "coverage": cov, "assumptions": list(getattr(prop, "ASSUMPTIONS", [])), "wall_s": round(wall, 2),
        "violations": nviol,
    }
    path = os.path.join(core.OUT_DIR, "evidence", f"{prop.ID}.json")
    tmp = path + ".tmp"
    with open(tmp, "w") as fh:
        json.dump(ev, fh, indent=1, sort_keys=True, default=str)
    os.replace(tmp, path)
    return path


def do_replay(prop, path):
    core.setup_imports()
    data = json.load(open(path))
    case = data["case"] if isinstance(data, dict) and "case" in data else data
    known, _ = findings.load()
    res = evaluate(prop, case, prop.BUDGET["thorough"].get("case_timeout", 120) * 4)
    if res.fail is None:
        if any(str(l).startswith("inconclusive") for l in res.labels):
            print(f"replay {path}: inconclusive ({res.labels})")
            return 3
        print(f"replay {path}: property held ({res.labels})")
        return 0
    k = findings.match(known, prop.ID, res.fail)
    if k is not None:
        print(f"KNOWN-FINDING: property={prop.ID} {k.text}")
        return 0
    print(f"  clause={res.fail.clause}\n  {res.fail.msg}")
    print(f"VIOLATION property={prop.ID} replay={path}")
    return 1


def _confirm_in_fresh_process(prop_id, path):
    """'violation' / 'held' / 'inconclusive' (treated as violation: the in-process observation stands)."""
    import subprocess
    env = dict(os.environ, VERIF_NO_FUZZ="1")
    try:
        r = subprocess.run([sys.executable, "-W", "ignore", "-m", "vp.runner", prop_id, "--replay", path],
                           cwd=core.VERIF_DIR, env=env, capture_output=True, text=True, timeout=1800)
    except subprocess.TimeoutExpired:
        return "inconclusive"
    if r.returncode == 0 and "property held" in r.stdout:
        return "held"
    return "violation" if r.returncode == 1 else "inconclusive"


def main(argv=None):
    ap = argparse.ArgumentParser()
    ap.add_argument("prop")
    ap.add_argument("--tier", default=os.environ.get("VERIF_TIER", "quick"), choices=["quick", "thorough"])
    ap.add_argument("--replay")
    ap.add_argument("--examples", type=int)
    ap.add_argument("--shards", type=int)
    ns = ap.parse_args(argv)
    seed = int(os.environ.get("VERIF_SEED", "1") or 1)
    prop_id = ns.prop.upper()
    t0 = time.time()
    try:
        prop = load_prop(prop_id)
        if ns.replay:
            return do_replay(prop, ns.replay)
        budget = prop.BUDGET[ns.tier]
        nshards = ns.shards or budget.get("shards", 1)
        examples = ns.examples if ns.examples is not None else budget["examples"]
        per = -(-examples // nshards)
        wall_budget = budget.get("wall_budget", 3600)
        if os.environ.get("VERIF_WALL_BUDGET"):       # development aid: exercise a tier's code paths within a shorter budget
            wall_budget = min(wall_budget, int(os.environ["VERIF_WALL_BUDGET"]))
        jobs = [(prop_id, ns.tier, seed, s, nshards, per, wall_budget) for s in range(nshards)]
        if nshards == 1:
            results = [run_shard(jobs[0])]
        else:
            ctx = multiprocessing.get_context("spawn")
            with ctx.Pool(min(nshards, os.cpu_count() or 1)) as pool:
                results = pool.map(run_shard, jobs)
        stats = merge(results)
        extra = None
        finalize_error = None
        if hasattr(prop, "finalize"):
            core.setup_imports()
            try:
                extra = prop.finalize(ns.tier, seed, stats)   # may append to stats.violations / return extra coverage
            except Exception as e:  # noqa  - a broken second engine must not hide what the first one found
                finalize_error = f"{type(e).__name__}: {str(e)[:300]}"
                extra = {"second_engine_error": finalize_error}
        # ---- coverage-guided secondary engine (vp/fuzz.py): same strategy, same oracle, libFuzzer feedback ---------
        fz = getattr(prop, "FUZZ", {}).get(ns.tier)
        if fz and os.environ.get("VERIF_NO_FUZZ", "") != "1":
            from . import fuzz
            if os.environ.get("VERIF_FUZZ_WALL"):
                fz = dict(fz, wall_s=min(fz["wall_s"], int(os.environ["VERIF_FUZZ_WALL"])))
            try:
                fviol, fcov = fuzz.drive(prop, ns.tier, seed, **fz)
                stats.violations.extend(fviol)
            except Exception as e:  # noqa  - an engine that cannot run is inconclusive, never a violation
                fcov = {"fuzz_engine_error": f"{type(e).__name__}: {str(e)[:300]}"}
            extra = dict(extra or {}, **fcov)
        # ---- report ------------------------------------------------------------------------------------------
        os.makedirs(os.path.join(core.OUT_DIR, "replays"), exist_ok=True)
        seen = set()
        nviol = 0
        unconfirmed = []
        for v in stats.violations:
            b = v["fail"]["clause"]
            if b in seen:
                continue
            seen.add(b)
            name = f"{prop_id}-{digest([b, v['case']])}.json"
            rel = os.path.join("replays", name)
            with open(os.path.join(core.OUT_DIR, rel), "w") as fh:
                json.dump({"property": prop_id, "case": v["case"], "fail": v["fail"], "tier": ns.tier,
                           "seed": seed, "shrunk": v.get("shrunk", False)}, fh, indent=1, default=str)
            # A failure is only believed when its saved case fails again in a fresh process: a worker whose state was
            # damaged (e.g. the per-case alarm firing in the middle of a lazy import inside torch) must not raise an alarm.
            verdict = "violation" if v.get("no_fresh_confirm") else \
                _confirm_in_fresh_process(prop_id, os.path.join(core.OUT_DIR, rel))
            if verdict == "held":
                unconfirmed.append({"clause": b, "replay": rel})
                continue
            nviol += 1
            print(f"  clause={b}\n  {v['fail']['msg']}")
            print(f"VIOLATION property={prop_id} replay={rel}")
        if unconfirmed:
            extra = dict(extra or {}, failures_not_reproduced_in_a_fresh_process=unconfirmed)
        for text, n in sorted(stats.excluded_known.items()):
            print(f"KNOWN-FINDING: property={prop_id} {text} (cases excluded: {n})")
        wall = time.time() - t0
        min_nt = getattr(prop, "MIN_NONTRIVIAL", 2)
        write_evidence(prop, ns.tier, seed, stats, wall, nviol, extra)
        print(f"[{prop_id}] tier={ns.tier} seed={seed} evaluations={stats.evaluations} "
              f"distinct_nontrivial={len(stats.nontrivial)} comparisons={stats.checks} violations={nviol} "
              f"timeouts={stats.timeouts} wall={wall:.1f}s")
        if nviol:
            return 1
        if finalize_error:
            print(f"HARNESS-ERROR: second engine failed: {finalize_error}")
            return 2
        if stats.evaluations == 0:
            print("HARNESS-ERROR: no case was evaluated (machine overloaded or generator broken)")
            return 2
        if len(stats.nontrivial) < min_nt and not stats.stopped_early:
            print(f"HARNESS-ERROR: only {len(stats.nontrivial)} non-trivial cases (<{min_nt}): generator is vacuous")
            return 2
        return 0
    except HarnessError as e:
        print(f"HARNESS-ERROR: {e}")
        return 2
    except Exception as e:  # noqa
        traceback.print_exc()
        print(f"HARNESS-ERROR: {type(e).__name__}: {e}")
        return 2


if __name__ == "__main__":
    sys.exit(main())
