"""Generated SDE programs described by JSON specs and compiled to nn.Modules.

(b) generic smooth SDEs (no closed form): small tanh networks with seeded weights, explicit time dependence, all four
    noise types. Diagonal diffusion is element-wise g_i(t, y_i) as the documentation requires; additive depends on t only.
(a) closed-form families live in sdes_closed.py.
"""
import math

import torch
from hypothesis import strategies as st
from torch import nn

NOISE_TYPES = ["diagonal", "scalar", "additive", "general"]
SDE_TYPES = ["ito", "stratonovich"]


@st.composite
def generic_specs(draw, noise_types=NOISE_TYPES, sde_types=SDE_TYPES, max_d=3, max_m=3, max_batch=3,
                  dtypes=("float64",), min_batch=1):
    nt = draw(st.sampled_from(list(noise_types)))
    d = draw(st.integers(1, max_d))
    m = d if nt == "diagonal" else (1 if nt == "scalar" else draw(st.integers(1, max_m)))
    return {
        "sde_type": draw(st.sampled_from(list(sde_types))), "noise_type": nt, "d": d, "m": m,
        "batch": draw(st.integers(min_batch, max_batch)), "hidden": draw(st.integers(2, 4)),
        "seed": draw(st.integers(0, 2 ** 31 - 1)), "tdep": draw(st.booleans()),
        "fscale": draw(st.sampled_from([0.5, 1.0, 1.5])), "gscale": draw(st.sampled_from([0.3, 0.7, 1.0])),
        "dtype": draw(st.sampled_from(list(dtypes))),
    }


class GenericSDE(nn.Module):
    def __init__(self, spec):
        super().__init__()
        self.spec = spec
        # equal but distinct string objects (as if read from a configuration file)
        self.noise_type = "".join(list(spec["noise_type"]))
        self.sde_type = "".join(list(spec["sde_type"]))
        d, m, hdim = spec["d"], spec["m"], spec["hidden"]
        dtype = getattr(torch, spec.get("dtype", "float64"))
        gen = torch.Generator().manual_seed(spec["seed"])

        def P(*shape, scale=1.0):
            return nn.Parameter(torch.randn(*shape, generator=gen, dtype=dtype) * scale)

        self.tdep = 1.0 if spec["tdep"] else 0.0
        self.fscale, self.gscale = spec["fscale"], spec["gscale"]
        self.fW1, self.fb1, self.fc1 = P(d, hdim, scale=0.8), P(hdim, scale=0.3), P(hdim, scale=0.8)
        self.fW2, self.fb2 = P(hdim, d, scale=0.8), P(d, scale=0.3)
        self.hW, self.hb = P(d, d, scale=0.5), P(d, scale=0.3)
        nt = self.noise_type
        if nt == "diagonal":
            # components of either sign (a diffusion coefficient need not be positive), bounded away from zero
            sign = torch.where(torch.rand(d, generator=gen, dtype=dtype) < 0.4, -1.0, 1.0).to(dtype)
            self.ga = nn.Parameter((0.6 + 0.4 * torch.rand(d, generator=gen, dtype=dtype)) * sign)
            self.gb, self.gc, self.ge = P(d, scale=0.3), P(d, scale=0.9), P(d, scale=0.9)
        elif nt == "additive":
            self.G0, self.G1 = P(d, m, scale=0.7), P(d, m, scale=0.5)
        else:
            self.gW1, self.gb1, self.gc1 = P(d, hdim, scale=0.8), P(hdim, scale=0.3), P(hdim, scale=0.8)
            self.gW2, self.gb2 = P(hdim, d * m, scale=0.7), P(d * m, scale=0.4)
        self.unused = P(2, scale=1.0)            # a parameter the SDE never uses
        # optional per-sample conditioning: batch member b has its own drift/diffusion scale (the SDE still acts row-wise;
        # "additive" only means constant with respect to y, not identical across the batch)
        self.rowdep = bool(spec.get("rowdep", False))
        self.register_buffer("rowscale", 1.0 + 0.6 * (torch.rand(16, generator=gen, dtype=dtype) - 0.5))

        # optional regime switch: from time `gswitch` on the diffusion is a constant (no state, no parameter in it)
        self.gswitch = spec.get("gswitch")
        self.register_buffer("gconst", 0.3 + 0.4 * torch.rand(d, 1 if nt == "diagonal" else m, generator=gen, dtype=dtype))

        # optional stored diffusion: g returns one and the same stored tensor on every call (a constant diffusion is a valid
        # diffusion for all four noise types); "clone" returns a fresh copy of it instead
        self.gstored = spec.get("gstored")
        gshape = (spec["batch"], d) if nt == "diagonal" else (spec["batch"], d, 1 if nt == "scalar" else m)
        self.register_buffer("gbuf", 0.3 + 0.5 * torch.rand(*gshape, generator=gen, dtype=dtype))

    def _row(self, y, ndim):
        if not self.rowdep:
            return 1.0
        r = self.rowscale[torch.arange(y.size(0)) % 16]
        return r.reshape((-1,) + (1,) * (ndim - 1))

    def f(self, t, y):
        if self.spec.get("f_alias"):
            return y                       # dY = Y dt: the drift returns its input tensor itself (no fresh tensor)
        return self._row(y, 2) * self.fscale * (torch.tanh(y @ self.fW1 + self.fb1 + self.tdep * t * self.fc1) @ self.fW2
                                                + self.fb2)

    def h(self, t, y):
        if self.spec.get("h_alias"):
            return y                       # prior drift h(t, y) = y, returned as the input tensor itself
        return torch.tanh(y @ self.hW + self.hb) * 0.7

    def g(self, t, y):
        nt = self.noise_type
        if self.spec.get("g_alias") and nt == "diagonal":
            return y                       # unit multiplicative noise dY_i = ... + Y_i dW_i: g returns its input tensor
        if self.gstored and y.size(0) == self.gbuf.size(0):
            return self.gbuf.clone() if self.gstored == "clone" else self.gbuf
        if self.gswitch is not None and float(t) >= self.gswitch:
            if nt == "diagonal":
                return self.gconst[:, 0].unsqueeze(0).expand(y.size(0), -1)
            return self.gconst.unsqueeze(0).expand(y.size(0), -1, -1)
        if nt == "diagonal":
            return self._row(y, 2) * self.gscale * (self.ga + self.gb * torch.tanh(self.gc * y + self.tdep * t * self.ge))
        if nt == "additive":
            G = self.gscale * (self.G0 + torch.sin(self.tdep * t + 0.3) * self.G1)
            G = G.unsqueeze(0).expand(y.size(0), -1, -1)
            return G * self._row(y, 3) if self.rowdep else G
        z = torch.tanh(y @ self.gW1 + self.gb1 + self.tdep * t * self.gc1) @ self.gW2 + self.gb2
        return self._row(y, 3) * self.gscale * z.reshape(y.size(0), self.spec["d"], self.spec["m"])


def build_generic(spec):
    return GenericSDE(spec)


def y0_for(spec, seed_offset=0, scale=1.0):
    dtype = getattr(torch, spec.get("dtype", "float64"))
    gen = torch.Generator().manual_seed((spec["seed"] + 7919 * (seed_offset + 1)) % (2 ** 31))
    return torch.randn(spec["batch"], spec["d"], generator=gen, dtype=dtype) * scale


class GeneralEmbedding(nn.Module):
    """The same SDE re-declared with general noise (diffusion written as a batch of d x m matrices)."""

    def __init__(self, base):
        super().__init__()
        self.base = base
        self.noise_type = "general"
        self.sde_type = base.sde_type

    def f(self, t, y):
        return self.base.f(t, y)

    def h(self, t, y):
        return self.base.h(t, y)

    def g(self, t, y):
        g = self.base.g(t, y)
        if self.base.noise_type == "diagonal":
            return torch.diag_embed(g)
        return g


# ---- accepted (sde_type, noise_type, method, options, levy) matrix -------------------------------------------------
# Written from DOCUMENTATION.md / solver docstrings, not from the dispatch code.
ITO_METHODS = {"euler": NOISE_TYPES, "milstein": ["diagonal", "scalar", "additive"],
               "srk": ["diagonal", "scalar", "additive"]}
STRAT_METHODS = {"euler_heun": NOISE_TYPES, "heun": NOISE_TYPES, "midpoint": NOISE_TYPES,
                 "milstein": ["diagonal", "scalar", "additive"], "reversible_heun": NOISE_TYPES,
                 "log_ode": NOISE_TYPES}
LEVY_NEEDED = {"srk": ["space-time", "davie", "foster"], "log_ode": ["davie", "foster"]}


def accepted_combos(include_grad_free=True, all_levy=False):
    """List of dicts {sde_type, noise_type, method, options, levy}."""
    out = []
    for sde_type, table in (("ito", ITO_METHODS), ("stratonovich", STRAT_METHODS)):
        for method, nts in table.items():
            for nt in nts:
                levies = LEVY_NEEDED.get(method, ["none"])
                if not all_levy:
                    levies = levies[:1] if method != "log_ode" else levies
                for lv in levies:
                    out.append({"sde_type": sde_type, "noise_type": nt, "method": method, "options": {}, "levy": lv})
                    if method == "milstein" and include_grad_free:
                        out.append({"sde_type": sde_type, "noise_type": nt, "method": method,
                                    "options": {"grad_free": True}, "levy": lv})
    return out


def combo_strategy(**kw):
    return st.sampled_from(accepted_combos(**kw))


def advertised_order(sde_type, noise_type, method):
    """Strong order as documented in the solver sources' class attributes/docstrings (oracle-side table)."""
    if method == "euler":
        return 1.0 if noise_type == "additive" else 0.5
    if method == "milstein":
        return 1.0
    if method == "srk":
        return 1.5
    if method in ("euler_heun", "heun", "midpoint", "log_ode"):
        return 0.5 if noise_type == "general" else 1.0
    if method == "reversible_heun":
        return 1.0 if noise_type == "additive" else 0.5
    raise ValueError(method)


def make_bm(torchsde, spec_or_shape, t0, t1, entropy, levy="none", dtype=torch.float64, **kw):
    if isinstance(spec_or_shape, dict):
        shape = (spec_or_shape["batch"], spec_or_shape["m"])
        dtype = getattr(torch, spec_or_shape.get("dtype", "float64"))
    else:
        shape = tuple(spec_or_shape)
    return torchsde.BrownianInterval(t0=float(t0), t1=float(t1), size=shape, dtype=dtype, entropy=int(entropy),
                                     levy_area_approximation="".join(list(levy)), **kw)


def dyadic_grid(draw, max_log2_steps=6):
    """(t0, dt, nsteps): dyadic dt and t0 so that t0 + k*dt is exact in floating point."""
    k = draw(st.integers(1, 7))
    dt = 2.0 ** -k
    if draw(st.sampled_from([False, False, False, False, True])):
        # a window far from the time origin (|t| >> dt; every t0 + j*dt is still exact): tolerances relative to |t| are then
        # as large as a step
        t0 = draw(st.sampled_from([1024.0, -4096.0, 65536.0, 20000.0])) + draw(st.integers(-8, 8)) * dt
        return t0, dt, draw(st.integers(1, 2 ** max_log2_steps))
    if draw(st.sampled_from([False, False, False, True])):
        # a step with one extra low bit: every t0 + j*dt is still exact in float64, but dt is not representable in float32
        dt = dt + 2.0 ** -40
    t0 = draw(st.integers(-8, 8)) * dt
    if draw(st.sampled_from([False, False, False, True])):
        # a start time with many significant bits (a multiple of 2^-36: still exact in float64 together with k*dt, but not
        # representable in float32)
        t0 = t0 + round(draw(st.sampled_from([0.1, -0.3, 0.7])) * 2 ** 36) / 2 ** 36
    n = draw(st.integers(1, 2 ** max_log2_steps))
    return t0, dt, n
