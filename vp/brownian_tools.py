"""Harness-side Brownian instruments: Recording / Stub / Slice / RowPerturb proxies, labelled noise, tree reader,
work counters. None of them modifies torchsde permanently: module attributes are swapped inside context managers."""
import contextlib

import torch

from .core import WorkBudgetExceeded


def _base():
    from torchsde._brownian import brownian_base
    return brownian_base.BaseBrownian


def make_recording(bm, keep_values=False):
    Base = _base()

    class Recording(Base):
        def __init__(self, inner):
            super().__init__()
            self.inner = inner
            self.log = []          # (ta, tb, return_U, return_A)
            self.values = []       # returned tensors (cloned) when keep_values

        def __call__(self, ta, tb=None, return_U=False, return_A=False):
            out = self.inner(ta, tb, return_U=return_U, return_A=return_A)
            self.log.append((float(ta), None if tb is None else float(tb), return_U, return_A))
            if keep_values:
                tup = out if isinstance(out, tuple) else (out,)
                self.values.append(tuple(None if x is None else x.detach().clone() for x in tup))
            return out

        def __repr__(self):
            return f"Recording({self.inner!r})"

        @property
        def dtype(self):
            return self.inner.dtype

        @property
        def device(self):
            return self.inner.device

        @property
        def shape(self):
            return self.inner.shape

        @property
        def levy_area_approximation(self):
            return self.inner.levy_area_approximation

    return Recording(bm)


def make_stub(shape, dtype, levy, fn):
    """A Brownian object whose answers are produced by fn(ta, tb) -> (W, U, A)."""
    Base = _base()

    class Stub(Base):
        def __init__(self):
            super().__init__()
            self.calls = 0

        def __call__(self, ta, tb=None, return_U=False, return_A=False):
            self.calls += 1
            W, U, A = fn(ta, tb)
            if return_U:
                return (W, U, A) if return_A else (W, U)
            return (W, A) if return_A else W

        def __repr__(self):
            return "Stub()"

        @property
        def dtype(self):
            return dtype

        @property
        def device(self):
            return torch.device("cpu")

        @property
        def shape(self):
            return tuple(shape)

        @property
        def levy_area_approximation(self):
            return levy

    return Stub()


def make_proxy(shape, dtype, levy, call):
    """A Brownian object whose __call__ is the given function call(ta, tb, return_U, return_A)."""
    Base = _base()

    class Proxy(Base):
        def __init__(self):
            super().__init__()

        def __call__(self, ta, tb=None, return_U=False, return_A=False):
            return call(ta, tb, return_U, return_A)

        def __repr__(self):
            return "Proxy()"

        @property
        def dtype(self):
            return dtype

        @property
        def device(self):
            return torch.device("cpu")

        @property
        def shape(self):
            return tuple(shape)

        @property
        def levy_area_approximation(self):
            return levy

    return Proxy()


def make_mapped(bm, shape, fn):
    """Proxy returning fn(component_name, tensor) applied to each returned component (W, U, A)."""
    Base = _base()

    class Mapped(Base):
        def __init__(self):
            super().__init__()

        def __call__(self, ta, tb=None, return_U=False, return_A=False):
            out = bm(ta, tb, return_U=return_U, return_A=return_A)
            names = ["W"] + (["U"] if return_U else []) + (["A"] if return_A else [])
            if not isinstance(out, tuple):
                return fn("W", out)
            return tuple(fn(n, x) for n, x in zip(names, out))

        def __repr__(self):
            return f"Mapped({bm!r})"

        @property
        def dtype(self):
            return bm.dtype

        @property
        def device(self):
            return bm.device

        @property
        def shape(self):
            return tuple(shape)

        @property
        def levy_area_approximation(self):
            return bm.levy_area_approximation

    return Mapped()


@contextlib.contextmanager
def patched(module, name, value):
    old = getattr(module, name)
    setattr(module, name, value)
    try:
        yield old
    finally:
        setattr(module, name, old)


@contextlib.contextmanager
def spy(bm):
    """Record the (ta, tb) of every call made on this very Brownian object, without wrapping it: wrappers written in the
    library (ReverseBrownian ...) and the solvers see the genuine object with all its attributes. Yields the log (a list)."""
    cls = type(bm)
    real = cls.__call__
    log = []

    def call(self, ta, tb=None, *a, **k):
        if self is bm:
            log.append((float(ta), None if tb is None else float(tb)))
        return real(self, ta, tb, *a, **k)
    cls.__call__ = call
    try:
        yield log
    finally:
        cls.__call__ = real


@contextlib.contextmanager
def labelled_noise(K, dtype=torch.float64):
    """Replace brownian_interval._randn by a map seed -> one-hot e_k in R^K (sample shape must be (K,)).
    Yields the registry {seed_value: index}. Raises IndexError (as HarnessError upstream) if K is too small."""
    from torchsde._brownian import brownian_interval as bi
    registry = {}

    def fake(size, dt, device, seed):
        key = int(seed)
        if key not in registry:
            registry[key] = len(registry)
        k = registry[key]
        out = torch.zeros(size, dtype=dt)
        if len(size) == 1:
            if k >= size[0]:
                raise LabelOverflow(k)
            out[k] = 1.0
        else:
            raise LabelOverflow(-1)
        return out

    with patched(bi, "_randn", fake):
        yield registry


class LabelOverflow(Exception):
    pass


@contextlib.contextmanager
def node_budget(limit):
    """Count _Interval creations per BrownianInterval call (and per constructor); raise WorkBudgetExceeded beyond
    `limit` in any single call - the deterministic stand-in for non-termination / unbounded allocation."""
    from torchsde._brownian import brownian_interval as bi
    counter = {"n": 0, "limit": limit, "max_per_call": 0, "calls": 0, "total": 0}
    orig_init = bi._Interval.__init__
    orig_call = bi.BrownianInterval.__call__

    def counting(self, *a, **k):
        counter["n"] += 1
        counter["total"] += 1
        if counter["n"] > counter["max_per_call"]:
            counter["max_per_call"] = counter["n"]
        if counter["n"] > counter["limit"]:
            raise WorkBudgetExceeded(f"more than {counter['limit']} tree nodes created in a single call")
        return orig_init(self, *a, **k)

    def call(self, *a, **k):
        counter["n"] = 0
        counter["search"] = 0
        counter["calls"] += 1
        return orig_call(self, *a, **k)

    # search steps: the tree search is a trampolined tail-call chain that can cycle without creating nodes
    orig_loc = getattr(bi._Interval, "_loc_inner", None)

    def loc_inner(self, *a, **k):
        counter["search"] = counter.get("search", 0) + 1
        if counter["search"] > counter["max_search_per_call"]:
            counter["max_search_per_call"] = counter["search"]
        if counter["search"] > 20 * counter["limit"]:
            raise WorkBudgetExceeded(f"more than {20 * counter['limit']} tree-search steps in a single call")
        return orig_loc(self, *a, **k)

    counter["max_search_per_call"] = 0
    bi._Interval.__init__ = counting
    bi.BrownianInterval.__call__ = call
    if orig_loc is not None:
        bi._Interval._loc_inner = loc_inner
    try:
        yield counter
    finally:
        bi._Interval.__init__ = orig_init
        bi.BrownianInterval.__call__ = orig_call
        if orig_loc is not None:
            bi._Interval._loc_inner = orig_loc


def leaves_covering(interval, ta, tb):
    """Read-only: the stored tree pieces whose union is [ta, tb] (None if the tree has no exact cover)."""
    out = []
    stack = [interval]
    while stack:
        node = stack.pop()
        s, e = node._start, node._end
        if e <= ta or s >= tb:
            continue
        if ta <= s and e <= tb:
            out.append((s, e))
            continue
        if getattr(node, "_midway", None) is None:
            return None
        stack.append(node._right_child)
        stack.append(node._left_child)
    return out


def tree_stats(interval):
    depth = 0
    nodes = 0
    leaves = []
    stack = [(interval, 0)]
    while stack:
        node, d = stack.pop()
        nodes += 1
        depth = max(depth, d)
        if getattr(node, "_midway", None) is None:
            leaves.append((node._start, node._end))
        else:
            stack.append((node._right_child, d + 1))
            stack.append((node._left_child, d + 1))
    return {"nodes": nodes, "depth": depth, "leaves": leaves}
