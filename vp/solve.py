"""Helpers shared by the solver-level properties: time grids, running sdeint with a recording Brownian proxy."""
import torch
from hypothesis import strategies as st

from . import brownian_tools, sdes

DTS = [0.5, 0.25, 0.125, 0.1, 0.3, 1 / 3, 0.013, 0.07, 0.2, 0.0625]


def fixed_grid(t0, t1, dt, dtype):
    """The grid the property prescribes: t_{k+1} = min(t_k + dt, t1), accumulated in the dtype of ts."""
    t = torch.tensor(t0, dtype=dtype)
    end = torch.tensor(t1, dtype=dtype)
    out = [t]
    while t < end:
        t = min(t + dt, end)
        out.append(t)
        if len(out) > 100000:
            raise RuntimeError("grid too long")
    return out


@st.composite
def time_setup(draw, max_steps=48, dtypes=("float64", "float32")):
    """t0, dt, number of steps (possibly fractional last step), dtype."""
    dt = draw(st.sampled_from(DTS))
    t0 = draw(st.sampled_from([0.0, 0.0, 0.1, -0.5, 1.0, 2.5]))
    nsteps = draw(st.integers(1, max_steps))
    frac = draw(st.sampled_from([0.0, 0.0, 0.3, 0.5, 0.9]))
    t1 = t0 + (nsteps + frac) * dt if frac else t0 + nsteps * dt
    return {"t0": t0, "t1": t1, "dt": dt, "tdtype": draw(st.sampled_from(list(dtypes)))}


def run(torchsde, sde, y0, ts, combo, dt, entropy=None, bm=None, record=False, adjoint=False, levy=None, **kw):
    """Run sdeint / sdeint_adjoint. Returns (result, recording_or_None)."""
    if bm is None:
        shape = (y0.shape[0], _noise_dim(sde, y0))
        bm = torchsde.BrownianInterval(t0=float(ts[0]), t1=float(ts[-1]), size=shape, dtype=y0.dtype,
                                       entropy=int(entropy), levy_area_approximation=levy or combo["levy"])
    rec = None
    if record:
        rec = brownian_tools.make_recording(bm, keep_values=False)
        bm = rec
    fn = torchsde.sdeint_adjoint if adjoint else torchsde.sdeint
    opts = dict(combo.get("options") or {})
    out = fn(sde, y0, ts, bm=bm, method="".join(list(combo["method"])), dt=dt, options=opts or None, **kw)
    return out, rec


def _noise_dim(sde, y0):
    spec = getattr(sde, "spec", None)
    if spec is not None:
        return spec["m"]
    base = getattr(sde, "base", None)
    if base is not None:
        return _noise_dim(base, y0)
    raise ValueError("cannot infer noise dimension")


def combos_for(spec, **kw):
    return [c for c in sdes.accepted_combos(**kw)
            if c["sde_type"] == spec["sde_type"] and c["noise_type"] == spec["noise_type"]]


@st.composite
def spec_and_combo(draw, noise_types=sdes.NOISE_TYPES, dtypes=("float64",), include_grad_free=True, max_batch=3,
                   min_batch=1, all_levy=True):
    spec = draw(sdes.generic_specs(noise_types=noise_types, dtypes=dtypes, max_batch=max_batch, min_batch=min_batch))
    combo = draw(st.sampled_from(combos_for(spec, include_grad_free=include_grad_free, all_levy=all_levy)))
    return spec, combo


def combo_label(combo):
    gf = "+grad_free" if (combo.get("options") or {}).get("grad_free") else ""
    return f"{combo['sde_type']}/{combo['noise_type']}/{combo['method']}{gf}"


def enumerate_cells(salt, all_levy=False, include_grad_free=True, dtype="float64"):
    """Yield (rnd, spec, combo) for every accepted (sde_type, noise_type, method, options, Levy mode) cell with a small
    time-dependent generic SDE; the PRNG is seeded by VERIF_SEED so another seed explores other weights, never fewer cells."""
    import os
    import random
    seed = int(os.environ.get("VERIF_SEED", "1") or 1)
    for idx, combo in enumerate(sdes.accepted_combos(include_grad_free=include_grad_free, all_levy=all_levy)):
        rnd = random.Random(seed * salt + idx)
        nt = combo["noise_type"]
        spec = {"sde_type": combo["sde_type"], "noise_type": nt, "d": 2, "m": 1 if nt == "scalar" else 2,
                "batch": rnd.choice([1, 2, 3]), "hidden": 3, "seed": rnd.randrange(2 ** 31), "tdep": True,
                "fscale": 1.0, "gscale": 0.7, "dtype": dtype}
        yield rnd, spec, combo
