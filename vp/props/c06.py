"""C06 - seeded reproducibility; query-order independence in dyadic-tree mode."""
import torch
from hypothesis import strategies as st

from .. import history
from ..core import Fail, Result

ID = "C06"
RULE = ("three case kinds. (same) two objects with the same entropy and options, the same generated query sequence: "
        "every answer bit-identical (W, U, A). (dyadic) halfway_tree=True / BrownianTree: two objects with the same "
        "entropy but two *different* generated histories (different query sets), then the same target queries: "
        "bit-identical. (entropy) entropy e vs a different entropy e': some answer differs. Non-trivial (dyadic) = "
        "histories differ in >= 5 queries overlapping a target, sample shape not scalar, and a multi-piece target; "
        "(same) >= 10 queries; (entropy) always. distinct = distinct canonical case JSON.")
ASSUMPTIONS = ["bit-identity via torch.equal",
               "'different paths' for different entropies is a probability-one event checked as 'not all equal'"]
BUDGET = {
    "quick": {"examples": 300, "shards": 4, "case_timeout": 60, "wall_budget": 240},
    "thorough": {"examples": 8000, "shards": 16, "case_timeout": 120, "wall_budget": 1800},
}
FUZZ = {"quick": dict(runs=600, procs=2, wall_s=90), "thorough": dict(runs=40000, procs=16, wall_s=900)}
TOLERANCES = {"all": "bit-identical (torch.equal)"}


@st.composite
def _same_case(draw, tier):
    cfg = draw(history.configs(wrappers=("interval", "interval", "interval", "reverse", "reverse2", "tree", "path")))
    if cfg["wrapper"] == "path":
        cfg["wrapper"] = "interval"       # BrownianPath takes no entropy argument
        cfg["cache_size"] = None
    ops = draw(history.op_lists(cfg, min_ops=2, max_ops=14, max_sweep=60, allow_point=True))
    return {"kind": "same", "cfg": cfg, "ops": ops}


@st.composite
def _dyadic_case(draw, tier):
    cfg = draw(history.configs(wrappers=("interval", "interval", "tree")))
    if cfg["wrapper"] == "interval":
        cfg["halfway"] = True
        cfg["dt"] = None
        if not cfg["tol"] > 0:
            cfg["tol"] = draw(st.sampled_from(history.TOLS))
            cfg["grid"] = draw(st.sampled_from([g for g in (100, 1000, 10 ** 6) if g <= round(1 / cfg["tol"])] or [100]))
    ops_a = draw(history.op_lists(cfg, min_ops=1, max_ops=10, max_sweep=30, allow_point=True))
    ops_b = draw(history.op_lists(cfg, min_ops=0, max_ops=10, max_sweep=30, allow_point=True))
    targets = draw(history.op_lists(cfg, min_ops=1, max_ops=5, max_sweep=6, allow_point=True))
    if draw(st.booleans()):
        # times that are NOT on the tolerance grid (the library resolves them to it): a cluster of nearby raw times, asked
        # in one order in history A, in the reverse order in history B and again as targets - order independence must hold
        # for what they resolve to
        span = cfg["t1"] - cfg["t0"]
        c = cfg["t0"] + span * draw(st.integers(50, 950)) / 1000.0
        w = max(cfg["tol"], 1e-9) * draw(st.sampled_from([0.2, 0.6, 1.3, 3.1]))
        pts = sorted({min(cfg["t1"], c + w * k) for k in range(6)})
        raws = [["raw", a_, b_] for a_, b_ in zip(pts[:-1], pts[1:])] + [["raw", pts[0], pts[-1]], ["raw", pts[1], pts[-2]]]
        raws = [r for r in raws if r[1] < r[2]]
        ops_a = ops_a + raws
        ops_b = list(reversed(raws)) + ops_b
        targets = targets + raws[::2]
    cache_b = draw(st.sampled_from([0, 1, 5, 45, None])) if cfg["wrapper"] == "interval" else 45
    return {"kind": "dyadic", "cfg": cfg, "ops_a": ops_a, "ops_b": ops_b, "targets": targets, "cache_b": cache_b}


@st.composite
def _entropy_case(draw, tier):
    cfg = draw(history.configs(wrappers=("interval", "tree"), allow_user=False))
    ops = draw(history.op_lists(cfg, min_ops=1, max_ops=4, max_sweep=6, allow_zero=False))
    # the other entropy: an unrelated one, or the immediate neighbour (entropy + 1)
    return {"kind": "entropy", "cfg": cfg, "ops": ops,
            "other": draw(st.one_of(st.integers(0, 2 ** 31 - 2), st.just(cfg["entropy"] + 1)))}


def strategy(tier):
    return st.one_of(_same_case(tier), _dyadic_case(tier), _dyadic_case(tier), _entropy_case(tier))


def enumerate_cases(tier):
    """Systematic part of the dyadic kind: sibling nodes of the dyadic tree reached in opposite orders. For every Levy mode,
    every cache size of either object and every depth 1..6: history A asks for the left half of a node and then the right
    half, history B for the right half first (both then refine one of the halves); targets are the node, both halves and
    their quarters. Dyadic times of [0, 1] (exact), tolerance 2^-12-ish from the allowed list."""
    import os
    import random
    seed = int(os.environ.get("VERIF_SEED", "1") or 1)
    idx = 0
    for levy in ("none", "space-time", "davie", "foster"):
        for cache_a, cache_b in ((None, None), (45, None), (None, 1), (45, 45), (1, 5), (0, None), (None, 0)):
            for depth in (1, 2, 3, 4, 6):
                idx += 1
                rnd = random.Random(seed * 5003 + idx)
                k = rnd.randrange(2 ** (depth - 1))
                w = 2.0 ** -(depth - 1)
                lo, hi = k * w, (k + 1) * w
                mid = 0.5 * (lo + hi)
                q1, q3 = 0.5 * (lo + mid), 0.5 * (mid + hi)
                left, right = ["raw", lo, mid], ["raw", mid, hi]
                refine = [["raw", lo, q1], ["raw", q1, mid]] if rnd.random() < 0.5 else [["raw", q3, hi], ["raw", mid, q3]]
                cfg = {"wrapper": "interval", "t0": 0.0, "t1": 1.0, "shape": [16, 3] if levy in ("davie", "foster") else [64],
                       "levy": levy, "entropy": rnd.randrange(2 ** 31), "dtype": rnd.choice(["float64", "float32"]),
                       "cache_size": cache_a, "dt": None, "tol": 2.5e-6, "halfway": True, "user_W": False, "user_H": False,
                       "grid": 1000}
                yield {"kind": "dyadic", "cfg": cfg, "ops_a": [left, right] + refine, "ops_b": [right, left] + refine[::-1],
                       "targets": [["raw", lo, hi], left, right, ["raw", lo, q1], ["raw", q1, mid], ["raw", mid, q3],
                                   ["raw", q3, hi], ["raw", q1, q3]], "cache_b": cache_b}
    # windows far from the time origin with a fine tolerance (|t| * 1e-9 spans many resolved times): clusters of short
    # intervals, a few resolved steps each, asked in opposite orders
    # a node of the dyadic tree, then intervals whose end points lie a fraction of the tolerance away from that node's
    # (0.3 ... 1.4 tol: on the same resolved time or on the neighbouring one), against an object that never saw the node
    for tol in sorted(set(history.TOLS)):
        for wrapper in ("interval", "tree"):
            idx += 1
            rnd = random.Random(seed * 5003 + idx)
            lo, hi = rnd.choice([(0.25, 0.5), (0.5, 0.75), (0.0, 0.5), (0.5, 1.0)])
            near = []
            for fa, fb in ((0.6, 0.0), (0.0, 0.7), (-0.8, 0.0), (0.0, -0.6), (0.9, 0.9), (0.3, 0.0), (1.4, 0.0), (0.0, -1.3)):
                a_, b_ = max(0.0, lo + fa * tol), min(1.0, hi + fb * tol)
                if a_ < b_:
                    near.append(["raw", a_, b_])
            cfg = {"wrapper": wrapper, "t0": 0.0, "t1": 1.0, "shape": [16], "levy": "none", "entropy": rnd.randrange(2 ** 31),
                   "dtype": "float64", "cache_size": 45, "dt": None, "tol": tol, "halfway": True, "user_W": False,
                   "user_H": False, "grid": 100}
            ops_a = []
            for q_ in near:
                ops_a += [["raw", lo, hi], q_]
            if wrapper == "interval":
                ops_a += [["pt", 50], ["raw", 0.0, min(1.0, 0.5 + 0.7 * tol)]]
            yield {"kind": "dyadic", "cfg": cfg, "ops_a": ops_a, "ops_b": [], "targets": near + [["raw", lo, hi]], "cache_b": 45}
    for t0 in (50000.0, -200000.0, 1000.0, 0.0):
        for levy in ("none", "space-time"):
            for tol in (1e-6,):
                idx += 1
                rnd = random.Random(seed * 5003 + idx)
                # around a shallow node boundary of the dyadic tree (where neighbouring leaves belong to distant branches) or
                # anywhere
                base = t0 + rnd.choice([0.5, 0.25, round(rnd.uniform(0.1, 0.9), 3)])
                raws = []
                for _ in range(300):
                    a_ = round(base + rnd.randrange(0, 200) * 1e-6, 6)
                    raws.append(["raw", a_, round(a_ + rnd.randrange(1, 12) * 1e-6, 6)])
                shuffled = list(raws)
                rnd.shuffle(shuffled)
                cfg = {"wrapper": rnd.choice(["interval", "tree"]) if levy == "none" else "interval", "t0": t0, "t1": t0 + 1.0,
                       "shape": [16], "levy": levy, "entropy": rnd.randrange(2 ** 31), "dtype": "float64",
                       "cache_size": 45, "dt": None, "tol": tol, "halfway": True, "user_W": False, "user_H": False,
                       "grid": 1000}
                yield {"kind": "dyadic", "cfg": cfg, "ops_a": raws, "ops_b": shuffled, "targets": raws, "cache_b": 45}


def _eq(x, y):
    if x is None or y is None:
        return x is None and y is None
    return torch.equal(x, y)


def run_case(case):
    import torchsde
    kind = case["kind"]
    cfg = case["cfg"]
    sig = {"kind": kind, "wrapper": cfg["wrapper"], "halfway": cfg["halfway"], "levy": cfg["levy"]}
    labels = [f"kind={kind}", f"wrapper={cfg['wrapper']}", f"levy={cfg['levy']}", f"ndim={len(cfg['shape'])}"]
    checks = 0
    if kind == "same":
        q = history.expand(case)
        bm1, _, _ = history.build(cfg, torchsde, torch)
        # the first object answers a few queries BEFORE its twin exists: building (and using) a second object with the same
        # entropy and options must not change what the first one returns
        q = [(cfg["t0"], cfg["t1"])] + q          # the whole interval first: its value is what everything else hangs on
        pre = [bm1(a, b) for (a, b) in q[:3]]
        bm2, _, _ = history.build(cfg, torchsde, torch)
        for (a, b) in q[:3]:
            bm2(a, b)                  # the same sequence of queries for both objects (values may depend on the history)
        for idx, (a, b) in enumerate(q):
            r1, r2 = bm1(a, b), bm2(a, b)
            checks += 1
            for name, x, y in zip("WUA", r1, r2):
                if not _eq(x, y):
                    return Result(nontrivial=True, checks=checks, fail=Fail(
                        f"same_entropy_differs:{name}", f"two objects with equal entropy/options disagree on {name} of "
                                                        f"query #{idx} {(a, b)}", sig))
            if idx < len(pre):
                for name, x, y in zip("WUA", r1, pre[idx]):
                    if not _eq(x, y):
                        return Result(nontrivial=True, checks=checks, fail=Fail(
                            f"same_entropy_differs:{name}", f"{name} of query #{idx} {(a, b)} changed after a second object "
                                                            f"with the same entropy and options was built", sig))
        return Result(nontrivial=len(q) >= 10, labels=labels, checks=checks, metrics={"queries": len(q)})
    if kind == "dyadic":
        qa = history.expand({"cfg": cfg, "ops": case["ops_a"]})
        qb = history.expand({"cfg": cfg, "ops": case["ops_b"]})
        targets = [t for t in history.expand({"cfg": cfg, "ops": case["targets"]}) if t[0] is None or t[0] < t[1]]
        cfg_b = dict(cfg)
        cfg_b["cache_size"] = case["cache_b"] if cfg["wrapper"] == "interval" else cfg["cache_size"]
        bm1, i1, _ = history.build(cfg, torchsde, torch)
        bm2, i2, _ = history.build(cfg_b, torchsde, torch)
        seen_a, seen_b = {}, {}
        for (a, b) in qa:
            seen_a.setdefault((a, b), bm1(a, b))
        for (a, b) in qb:
            seen_b.setdefault((a, b), bm2(a, b))
        # an interval asked in both histories (at different moments, after different predecessors) has one value
        for q_, r1 in seen_a.items():
            if q_ in seen_b:
                checks += 1
                for name, x, y in zip("WUA", r1, seen_b[q_]):
                    if not _eq(x, y):
                        return Result(nontrivial=True, checks=checks, fail=Fail(
                            f"dyadic_history_dependence:{name}",
                            f"dyadic mode: {name}{q_} asked within two different histories of the same object configuration "
                            f"gave two values", sig))
        from .. import brownian_tools
        multi = False
        for (a, b) in targets:
            r1, r2 = bm1(a, b), bm2(a, b)
            checks += 1
            for name, x, y in zip("WUA", r1, r2):
                if not _eq(x, y):
                    return Result(nontrivial=True, checks=checks, fail=Fail(
                        f"dyadic_history_dependence:{name}",
                        f"dyadic mode: {name}{(a, b)} depends on the earlier queries ({len(qa)} vs {len(qb)} prior "
                        f"queries)", sig))
            pieces = brownian_tools.leaves_covering(i1, cfg["t0"] if a is None else a, b)
            if pieces and len(pieces) > 1:
                multi = True
        sa, sb = set(qa), set(qb)
        lo = lambda q: cfg["t0"] if q[0] is None else q[0]     # noqa: E731
        diff = [q for q in (sa ^ sb) if any(lo(q) < t[1] and lo(t) < q[1] for t in targets)]
        if multi:
            labels.append("multi_piece_target")
        labels.append(f"cache_b={case['cache_b']}")
        return Result(nontrivial=len(diff) >= 5 and len(cfg["shape"]) >= 1 and multi and bool(targets), labels=labels,
                      checks=checks, metrics={"differing_prior_queries": len(diff)})
    # entropy
    q = [t for t in history.expand(case) if t[0] is not None and t[0] < t[1]]
    cfg2 = dict(cfg)
    cfg2["entropy"] = case["other"] if case["other"] != cfg["entropy"] else cfg["entropy"] + 1
    bm1, _, _ = history.build(cfg, torchsde, torch)
    bm2, _, _ = history.build(cfg2, torchsde, torch)
    if cfg["wrapper"] == "tree":
        # w0 is drawn from the entropy by the harness; compare increments only
        pass
    same_all = True
    for (a, b) in q:
        r1, r2 = bm1(a, b), bm2(a, b)
        checks += 1
        if not torch.equal(r1[0], r2[0]):
            same_all = False
    if q and same_all:
        return Result(nontrivial=True, checks=checks, fail=Fail(
            "entropy_ignored", f"entropies {cfg['entropy']} and {cfg2['entropy']} give identical increments on "
                               f"{len(q)} queries", sig))
    return Result(nontrivial=bool(q), labels=labels, checks=checks)


# ---- cross-process reproducibility (finalize) -------------------------------------------------------------------------
def _xp_configs(seed, n):
    import random
    rnd = random.Random(seed * 9176 + 5)
    out = []
    for k in range(n):
        wrapper = rnd.choice(["interval", "interval", "tree"])
        halfway = wrapper == "tree" or rnd.random() < 0.4
        tol = rnd.choice([1e-2, 1e-3, 1e-6]) if halfway else rnd.choice([0.0, 0.0, 1e-3])
        cfg = {"wrapper": wrapper, "t0": 0.0, "t1": 1.0, "shape": rnd.choice([[2], [2, 2], [3, 2]]),
               "levy": "none" if wrapper == "tree" else rnd.choice(["none", "space-time", "davie", "foster"]),
               "entropy": rnd.choice([0, rnd.randrange(2 ** 31), rnd.randrange(2 ** 31), 2 ** 53 + rnd.randrange(100)]),
               "dtype": "float64", "cache_size": rnd.choice([1, 5, 45, None]) if wrapper == "interval" else 45,
               "dt": None, "tol": tol, "halfway": halfway, "user_W": False, "user_H": False, "grid": 100}
        if cfg["levy"] in ("davie", "foster") and len(cfg["shape"]) < 2:
            cfg["shape"] = [2, 2]
        qs = []
        for _ in range(rnd.randint(3, 12)):
            i = rnd.randrange(0, 99)
            qs.append(["q", i, rnd.randrange(i + 1, 101)])
        out.append({"cfg": cfg, "ops": qs})
    return out


def _xp_digest(torchsde, case, decoys=()):
    import hashlib
    keep = []
    for dc in decoys:       # objects that are only constructed (never queried) right before the object under test
        try:
            keep.append(history.build(dc, torchsde, torch))
        except Exception:  # noqa
            pass
    bm, _, _ = history.build(case["cfg"], torchsde, torch)
    h = hashlib.sha1()
    for (a, b) in history.expand(case):
        for x in bm(a, b):
            if x is not None:
                h.update(x.contiguous().numpy().tobytes())
    return h.hexdigest()


def _xp_main(path):
    """Child process: digests of the cases in `path`, computed in reverse order in a process that has seen nothing else."""
    import json
    from .. import core
    torchsde = core.setup_imports()
    cases = json.load(open(path))
    out = {}
    for k in reversed(range(len(cases))):
        out[str(k)] = _xp_digest(torchsde, cases[k])
    print("XPDIGESTS " + json.dumps(out))


def finalize(tier, seed, stats):
    """Values depend only on (entropy, options, queries): a process that has used *other* Brownian objects with the same
    entropies (other pool_size / tree mode / shape) must return what a fresh process returns for the same objects."""
    import json
    import os
    import subprocess
    import sys
    import tempfile
    import torchsde
    from .. import core
    n = 24 if tier == "quick" else 200
    cases = _xp_configs(seed, n)
    # pollution: objects sharing the entropies but not the options
    polluted = 0
    for c in cases:
        cfg = c["cfg"]
        if cfg["wrapper"] == "tree":
            decoy = dict(cfg, wrapper="interval", halfway=True, cache_size=45, pool_size=8)
        else:
            decoy = dict(cfg, pool_size=24)
        try:
            _xp_digest(torchsde, {"cfg": decoy, "ops": c["ops"]})
            polluted += 1
        except Exception:  # noqa  - a decoy is only there to disturb global state
            pass
    here = {}
    for k, c in enumerate(cases):
        shp = c["cfg"]["shape"]
        for other in ([1] + shp[1:], shp[:-1] if len(shp) > 1 and c["cfg"]["levy"] in ("none", "space-time") else shp + [1]):
            if other != shp and not (c["cfg"]["levy"] in ("davie", "foster") and len(other) < 2):
                try:      # same entropy, same options, another sample shape, built right before the object under test
                    _xp_digest(torchsde, {"cfg": dict(c["cfg"], shape=other), "ops": c["ops"][:2]})
                    polluted += 1
                except Exception:  # noqa
                    pass
        decoys = [dict(c["cfg"], shape=o) for o in ([1] + shp[1:], shp + [1] if c["cfg"]["levy"] in ("none", "space-time")
                                                       else shp) if o != shp]
        here[str(k)] = _xp_digest(torchsde, c, decoys=decoys)
    fd, path = tempfile.mkstemp(suffix=".json", prefix="vp-c06-")
    try:
        with os.fdopen(fd, "w") as fh:
            json.dump(cases, fh)
        r = subprocess.run([sys.executable, "-W", "ignore", "-c",
                            f"import sys; sys.path.insert(0, {core.VERIF_DIR!r}); from vp.props import c06; "
                            f"c06._xp_main({path!r})"],
                           capture_output=True, text=True, timeout=900, cwd=core.VERIF_DIR,
                           env=dict(os.environ, PYTHONHASHSEED="0"))
    finally:
        os.unlink(path)
    line = [l for l in r.stdout.splitlines() if l.startswith("XPDIGESTS ")]
    cov = {"cross_process_cases": n, "cross_process_decoy_objects": polluted}
    if not line:
        cov["cross_process_inconclusive"] = (r.stderr or r.stdout)[-300:]
        return cov
    there = json.loads(line[0][len("XPDIGESTS "):])
    bad = [k for k in here if here[k] != there.get(k)]
    cov["cross_process_mismatches"] = len(bad)
    if bad:
        k = int(bad[0])
        stats.violations.append({"case": {"kind": "same", "cfg": cases[k]["cfg"], "ops": cases[k]["ops"]}, "shrunk": False,
                                 "no_fresh_confirm": True,      # the failure *is* a difference from a fresh process
                                 "fail": {"clause": "cross_process:same_entropy_differs",
                                          "msg": f"{len(bad)} of {n} Brownian objects return other values in a process that "
                                                 f"used objects with the same entropy but other options before than in a "
                                                 f"fresh process (first: case {k}, entropy {cases[k]['cfg']['entropy']})",
                                          "sig": {"kind": "cross_process"}}})
    return cov
