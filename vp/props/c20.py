"""C20 - batch rows are independent samples with no cross-talk."""
import torch
from hypothesis import strategies as st

from .. import brownian_tools, history, sdes, solve
from ..core import Fail, Result

ID = "C20"
RULE = ("three case kinds. (perturb) generic row-wise SDE x accepted (method, options, Levy mode), batch 2..6: all rows "
        "except row i of y0 and of the Brownian sample (W, U, A; through a proxy mixing two Brownian objects) are "
        "replaced - row i of every output must be bit-identical (a third of the cases with logqp=True, comparing the KL "
        "output row as well, the replaced rows of a diagonal SDE sitting where its diffusion numerically vanishes). (permute) rows of y0 and of the Brownian motion are "
        "permuted - outputs are permuted (1e3*eps; kernels may round differently under a different layout). (noise) "
        "BrownianInterval of shape (B,m)/(B,) in every Levy mode after a generated history: adding 1 to batch row r of "
        "every noise tensor changes row r of W/U/A and leaves every other row bit-identical; shapes with several batch "
        "dimensions are included and the random part of A must differ between any two batch elements. Non-trivial = batch >= 3 and "
        ">= 3 steps (solver kinds) / a non-root node (noise kind); distinct = distinct canonical case JSON.")
ASSUMPTIONS = ["generated SDEs act row-wise (no batch-norm-like coupling), fixed steps"]
BUDGET = {
    "quick": {"examples": 240, "shards": 4, "case_timeout": 60, "wall_budget": 240},
    "thorough": {"examples": 6000, "shards": 16, "case_timeout": 120, "wall_budget": 1800},
}
FUZZ = {"thorough": dict(runs=20000, procs=8, wall_s=600)}
TOLERANCES = {"perturb": "bit-identical", "permute": "1e3 * eps * scale", "noise": "bit-identical"}


@st.composite
def _solver_case(draw, tier, kind):
    spec, combo = draw(solve.spec_and_combo(dtypes=("float64", "float32"), max_batch=6, min_batch=2))
    # per-sample conditioning: every row has its own drift/diffusion scale, which belongs to the row like its y0 and its
    # Brownian row do (it is replaced / permuted together with them)
    spec["rowdep"] = draw(st.sampled_from([False, True]))
    tset = draw(solve.time_setup(max_steps=12 if tier == "quick" else 32, dtypes=(spec["dtype"],)))
    return {"kind": kind, "spec": spec, "combo": combo, "time": tset, "row": draw(st.integers(0, 5)),
            "logqp": draw(st.sampled_from([False, True])) if spec["noise_type"] == "diagonal" else
            draw(st.sampled_from([False, False, False, True])),
            "entropy": draw(st.integers(0, 2 ** 31 - 2)), "entropy2": draw(st.integers(0, 2 ** 31 - 2)),
            "perm_seed": draw(st.integers(0, 2 ** 31 - 1)),
            # the replaced rows hold a sample path that has blown up (NaN): row i must not notice
            "others_nan": draw(st.sampled_from([False, False, False, True])),
            "wide_scales": draw(st.booleans())}


class _SmallGRows(torch.nn.Module):
    """Row-wise wrapper: rows whose first state component is beyond 50 get a (numerically) vanishing diffusion."""

    def __init__(self, base):
        super().__init__()
        self.base = base
        self.noise_type, self.sde_type, self.spec = base.noise_type, base.sde_type, base.spec

    def f(self, t, y):
        return self.base.f(t, y)

    def h(self, t, y):
        return self.base.h(t, y)

    def g(self, t, y):
        g = self.base.g(t, y)
        small = (y[:, :1].abs() > 50).to(g.dtype)
        return g * (1 - small) + 1e-9 * g * small


@st.composite
def _noise_case(draw, tier):
    cfg = draw(history.configs(wrappers=("interval",), shapes=[[3], [4, 2], [2, 3], [5, 1], [3, 3], [2, 3, 2], [3, 2, 2],
                                                               [2, 2, 3]],
                               allow_user=False, max_pieces=300))
    ops = draw(history.op_lists(cfg, min_ops=1, max_ops=6, max_sweep=20))
    return {"kind": "noise", "cfg": cfg, "ops": ops, "row": draw(st.integers(0, 4))}


def strategy(tier):
    return st.one_of(_solver_case(tier, "perturb"), _solver_case(tier, "permute"), _noise_case(tier))


def enumerate_cases(tier):
    """Every accepted (sde_type, noise_type, method, options, Levy mode) cell with each solver-level kind: row perturbation
    (plain and with logqp=True) and row permutation."""
    import os
    import random
    seed = int(os.environ.get("VERIF_SEED", "1") or 1)
    for idx, combo in enumerate(sdes.accepted_combos(include_grad_free=True, all_levy=False)):
        nt = combo["noise_type"]
        for kind, logqp in (("perturb", False), ("perturb", True), ("permute", False)):
            rnd = random.Random(seed * 9001 + idx * 3 + (1 if logqp else 0))
            # sizes rotate over the cells: state size 1 and a single noise channel are legal shapes too
            d_, m_ = [(2, 2), (1, 1), (3, 2), (1, 2)][(idx + (1 if logqp else 0)) % 4]
            spec = {"sde_type": combo["sde_type"], "noise_type": nt, "d": d_,
                    "m": 1 if nt == "scalar" else (d_ if nt == "diagonal" else m_),
                    "batch": rnd.choice([3, 4, 5]), "hidden": 3, "seed": rnd.randrange(2 ** 31), "tdep": True,
                    "fscale": 1.0, "gscale": 0.7, "dtype": "float64"}
            yield {"kind": kind, "spec": spec, "combo": combo, "logqp": logqp, "row": rnd.randrange(6),
                   # the replaced rows may also hold NaN (a sample that has blown up): the kept row must not notice
                   "others_nan": kind == "perturb" and not logqp and (combo["method"] == "milstein" or idx % 3 == 0),
                   "time": {"t0": 0.0, "t1": 0.625, "dt": 0.125, "tdtype": "float64"},
                   "entropy": rnd.randrange(2 ** 31 - 2), "entropy2": rnd.randrange(2 ** 31 - 2),
                   "perm_seed": rnd.randrange(2 ** 31)}


def run_case(case):
    if case["kind"] == "noise":
        return _run_noise(case)
    import torchsde
    spec, combo, tm = case["spec"], case["combo"], case["time"]
    dtype = getattr(torch, spec["dtype"])
    eps = torch.finfo(dtype).eps
    B = spec["batch"]
    sde = sdes.build_generic(spec)
    base_sde_ = sde
    y0 = sdes.y0_for(spec)
    ts = torch.tensor([tm["t0"], 0.5 * (tm["t0"] + tm["t1"]), tm["t1"]], dtype=dtype)
    if not float(ts[0]) < float(ts[1]) < float(ts[2]):
        return Result(labels=["degenerate_ts"])
    sig = {"kind": case["kind"], "method": combo["method"], "noise_type": spec["noise_type"]}
    logqp = bool(case.get("logqp")) and case["kind"] == "perturb"
    if logqp and spec["noise_type"] == "diagonal":
        sde = _SmallGRows(sde)        # other rows may carry a vanishing diffusion (guarded division in the KL integrand)
    m_bm = spec["m"] + 1 if (logqp and spec["noise_type"] == "diagonal") else spec["m"]
    shape = (B, m_bm)
    sde_default = sde
    rowdep = bool(spec.get("rowdep"))

    def mk(entropy):
        return torchsde.BrownianInterval(t0=float(ts[0]), t1=float(ts[-1]), size=shape, dtype=dtype, entropy=int(entropy),
                                         levy_area_approximation=combo["levy"])

    def with_rowscale(new_first_rows):
        """The same SDE with other per-row scales (rows 0..B-1)."""
        other = sdes.build_generic(spec)
        rs = other.rowscale.clone()
        rs[:B] = new_first_rows
        other.rowscale = rs
        return _SmallGRows(other) if (logqp and spec["noise_type"] == "diagonal") else other

    def go(y, bm, sde=None):
        sde = sde_default if sde is None else sde
        with torch.no_grad():
            out = torchsde.sdeint(sde, y, ts, bm=bm, method=combo["method"], dt=tm["dt"],
                                  options=dict(combo["options"]) or None, logqp=logqp)
        if logqp:
            # states and the per-row KL integrand, stacked so that row comparisons cover both outputs
            ys, lq = out
            lq_padded = torch.cat([lq, lq[-1:]], dim=0).unsqueeze(-1)      # (T, B, 1): one extra "channel" per row
            return torch.cat([ys, lq_padded], dim=-1)
        return out

    wide = rowdep and logqp and case["kind"] == "perturb" and bool(case.get("wide_scales"))
    if wide:
        # the kept row has a small diffusion (1e-4 .. 1e-5 of the others'), the replaced rows a huge one: nothing that is
        # computed for row i may be scaled by what the other rows hold
        i_keep = case["row"] % B
        rs0 = base_sde_.rowscale[:B].clone()
        rs0[i_keep] = rs0[i_keep] * 1e-5
        sde_default = with_rowscale(rs0)
    ref = go(y0, mk(case["entropy"]))
    steps = (tm["t1"] - tm["t0"]) / tm["dt"]
    labels = [f"kind={case['kind']}", solve.combo_label(combo), f"batch={B}", f"dtype={spec['dtype']}"] + \
        (["with_logqp"] if logqp else []) + (["per_sample_conditioning"] if rowdep else []) + \
        (["rows_of_very_different_scale"] if wide else [])
    if case["kind"] == "perturb":
        i = case["row"] % B
        mask = torch.zeros(B, dtype=torch.bool)
        mask[i] = True
        y_alt = sdes.y0_for(spec, seed_offset=3) * 1.7
        if logqp and spec["noise_type"] == "diagonal":
            y_alt = y_alt + 100.0          # the replaced rows sit where the wrapped diffusion (nearly) vanishes
        if case.get("others_nan") and not logqp:
            y_alt = torch.full_like(y_alt, float("nan"))
        y_mix = torch.where(mask.unsqueeze(-1), y0, y_alt)
        bm_a, bm_b = mk(case["entropy"]), mk(case["entropy2"] if case["entropy2"] != case["entropy"] else case["entropy"] + 1)

        def mixed(ta, tb=None, return_U=False, return_A=False):
            oa = bm_a(ta, tb, return_U=return_U, return_A=return_A)
            ob = bm_b(ta, tb, return_U=return_U, return_A=return_A)
            if not isinstance(oa, tuple):
                oa, ob = (oa,), (ob,)
            out = []
            for xa, xb in zip(oa, ob):
                m_ = mask.reshape([B] + [1] * (xa.dim() - 1))
                out.append(torch.where(m_, xa, xb))
            return out[0] if len(out) == 1 else tuple(out)

        proxy = brownian_tools.make_proxy(shape, dtype, combo["levy"], mixed)
        sde_mix = None
        if rowdep:
            rs = rs0 if wide else base_sde_.rowscale[:B]
            sde_mix = with_rowscale(torch.where(mask, rs, rs * (1e3 if wide else 1.37) + 0.05))
        got = go(y_mix, proxy, sde_mix)
        ok = torch.equal(got[:, i], ref[:, i])
        changed_elsewhere = not torch.equal(got, ref)
        if case.get("others_nan") and not logqp:
            labels.append("other_rows_nan")
        fail = None
        if not ok:
            d = float((got[:, i] - ref[:, i]).abs().max())
            fail = Fail("row_crosstalk", f"row {i} of the solution changed (max {d:.3e}) when only other rows of y0 and "
                                         f"of the Brownian sample were replaced ({solve.combo_label(combo)}, batch {B})",
                        sig)
        return Result(nontrivial=B >= 3 and steps >= 3 and changed_elsewhere, labels=labels, checks=1, fail=fail)
    # permute
    g = torch.Generator().manual_seed(case["perm_seed"])
    perm = torch.randperm(B, generator=g)
    if bool((perm == torch.arange(B)).all()):
        perm = torch.roll(torch.arange(B), 1)
    inner = mk(case["entropy"])
    proxy = brownian_tools.make_mapped(inner, shape, lambda name, x: x[perm])
    got = go(y0[perm], proxy, with_rowscale(base_sde_.rowscale[:B][perm]) if rowdep else None)
    scale = max(1.0, float(ref.abs().max()))
    e = float((got - ref[:, perm]).abs().max()) / scale
    fail = None
    if not e <= 1e3 * eps:
        fail = Fail("row_permutation", f"permuting batch rows does not permute the outputs: rel {e:.3e} "
                                       f"({solve.combo_label(combo)}, batch {B})", sig)
    return Result(nontrivial=B >= 3 and steps >= 3, labels=labels, checks=1, fail=fail,
                  metrics={"permute_err_in_eps": e / eps})


def _run_noise(case):
    import torchsde
    from torchsde._brownian import brownian_interval as bi
    cfg = case["cfg"]
    shape = tuple(cfg["shape"])
    r = case["row"] % shape[0]
    queries = [q for q in history.expand(case) if q[0] < q[1]]
    if not queries:
        return Result(labels=["kind=noise", "no_queries"])
    sig = {"kind": "noise", "levy": cfg["levy"]}

    seed_sizes = {}
    wrong_shape = []

    def run(bump):
        real = bi._randn

        def fake(size, dtype, device, seed):
            out = real(size, dtype, device, seed)
            seed_sizes.setdefault(int(seed), set()).add(tuple(size))
            if tuple(out.shape) != tuple(size):
                wrong_shape.append((tuple(size), tuple(out.shape)))
                return out
            if bump and len(size) >= 1 and size[0] == shape[0]:
                # a different amount for every noise tensor: equal bumps cancel exactly in the right half of a midpoint
                # bridge (W - left_W), which would look like "row r does not react to its own noise"
                out[r] += 0.5 + (int(seed) % 1009) / 1009.0
            return out

        with brownian_tools.patched(bi, "_randn", fake):
            bm, interval, _ = history.build(cfg, torchsde, torch)
            return [bm(a, b) for (a, b) in queries], interval

    try:
        base, interval = run(False)
        pert, _ = run(True)
    except (RuntimeError, IndexError):
        if not wrong_shape:
            raise
        base = pert = interval = None
    checks = 1
    if wrong_shape:
        return Result(nontrivial=True, checks=checks, fail=Fail(
            "noise_tensor_of_another_shape", f"the noise generator was asked for a tensor of shape {list(wrong_shape[0][0])} and "
                                             f"returned one of shape {list(wrong_shape[0][1])}: the elements of this sample are "
                                             f"not driven by noise elements of their own", sig))
    shared = [sd for sd, sz in seed_sizes.items() if len(sz) > 1]
    if shared:
        # a generator seeded alike produces the same leading numbers whatever the shape: the elements of one noise tensor
        # are then the elements of other rows of another one
        return Result(nontrivial=True, checks=checks, fail=Fail(
            "noise_elements_shared_between_tensors",
            f"{len(shared)} seed(s) (e.g. {shared[0]}) generate noise tensors of different shapes "
            f"{sorted(seed_sizes[shared[0]])}: their elements coincide, so an element of one row is driven by the noise "
            f"element of another row", sig))
    reacted = False
    for (a, b), o1, o2 in zip(queries, base, pert):
        for name, x, y in zip("WUA", o1, o2):
            if x is None:
                continue
            checks += 1
            if tuple(x.shape[:len(shape)]) != tuple(shape) or tuple(y.shape) != tuple(x.shape):
                return Result(nontrivial=True, checks=checks, fail=Fail(
                    "noise_tensor_of_another_shape", f"{name}{(a, b)} has shape {list(x.shape)} / {list(y.shape)} for a Brownian "
                                                     f"motion of shape {list(shape)}", sig))
            rows = [k for k in range(shape[0]) if not torch.equal(x[k], y[k])]
            if any(k != r for k in rows):
                return Result(nontrivial=True, checks=checks, fail=Fail(
                    "noise_row_crosstalk", f"perturbing the noise of batch row {r} changed rows {rows} of {name}{(a, b)}",
                    sig))
            if name == "W" and rows == [r]:
                reacted = True
        # every batch element has its own Levy-area noise: the random part of A differs between any two batch slices
        W_, U_, A_ = o1
        if A_ is not None and len(shape) >= 2 and b > a:
            H_ = U_ / (b - a) - 0.5 * W_
            R = (A_ - (H_.unsqueeze(-1) * W_.unsqueeze(-2) - W_.unsqueeze(-1) * H_.unsqueeze(-2)))
            R = R.reshape(-1, shape[-1], shape[-1])
            if shape[-1] >= 2:
                checks += 1
                off = R[:, 0, 1]
                if torch.unique(off).numel() != off.numel():
                    return Result(nontrivial=True, checks=checks, fail=Fail(
                        "levy_noise_shared_between_batch_elements",
                        f"the random part of A{(a, b)} coincides for two batch elements of a sample of shape {list(shape)}",
                        sig))
    # every Levy-area entry above the diagonal has its own noise element: bumping one element of the area noise of row r may
    # change one entry A_ij (and its mirror A_ji) of that row, and every entry must be reachable that way on its own
    m_ = shape[-1]
    if len(shape) == 2 and 3 <= m_ <= 5 and base and base[0][2] is not None:
        levy_sizes = sorted(sz for szs in seed_sizes.values() for sz in szs if tuple(sz) != tuple(shape))
        if levy_sizes:
            lsz = levy_sizes[0]
            import itertools
            slots = list(itertools.product(*[range(k_) for k_ in lsz[1:]]))
            own = set()
            q0 = [q for q in queries if q[0] < q[1]][:1]
            for slot in slots:
                real = bi._randn

                def fake2(size, dtype, device, seed, slot=slot):
                    out = real(size, dtype, device, seed)
                    if tuple(size) == tuple(lsz):
                        out[(r,) + slot] += 0.7
                    return out
                with brownian_tools.patched(bi, "_randn", fake2):
                    bm2, _, _ = history.build(cfg, torchsde, torch)
                    A2 = bm2(*q0[0])[2]
                changed = {(min(i_, j_), max(i_, j_)) for i_ in range(m_) for j_ in range(m_)
                           if i_ != j_ and not torch.equal(A2[r, i_, j_], base[queries.index(q0[0])][2][r, i_, j_])}
                if len(changed) == 1:
                    own |= changed
            checks += 1
            need = {(i_, j_) for i_ in range(m_) for j_ in range(i_ + 1, m_)}
            if own != need:
                return Result(nontrivial=True, checks=checks, fail=Fail(
                    "levy_entries_share_noise_elements",
                    f"area noise of shape {list(lsz)} for a sample of shape {list(shape)}: only the entries {sorted(own)} of A "
                    f"can be moved on their own by changing one noise element; {sorted(need - own)} cannot (they are driven by "
                    f"noise elements shared with other entries)", sig))
    if not reacted:
        return Result(nontrivial=True, checks=checks, fail=Fail(
            "noise_row_not_driven", f"row {r} of W did not react to its own noise in any of {len(queries)} queries", sig))
    stats = brownian_tools.tree_stats(interval)
    labels = ["kind=noise", f"levy={cfg['levy']}", f"shape={list(shape)}"]
    return Result(nontrivial=stats["depth"] >= 1, labels=labels, checks=checks)
