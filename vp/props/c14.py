"""C14 - adaptive stepping terminates, tiles the interval and honours tolerances."""
import math

import torch
from hypothesis import strategies as st

from .. import brownian_tools, sdes, solve
from ..core import Fail, Result, WorkBudgetExceeded

ID = "C14"
RULE = ("case = generic SDE (incl. stiff ones: diffusion scale up to 5, drift scale up to 4) x accepted (method, "
        "options, Levy mode) x (t0, t1, dt >= dt_min, dt_min, rtol, atol in 1e-6..10, output times) x entropy. The "
        "Brownian query log of a recording proxy is parsed into trials (full step, two half steps); the controller's "
        "inputs/outputs are recorded by temporarily wrapping adaptive_stepping.compute_error/update_step_size. Oracles: "
        "every trial is a (full, half, half) triple with a common midpoint (or a single step when it is too short to be "
        "halved in floating point); accepted steps are contiguous, strictly advance, stay inside [ts[0], ts[-1]] and end "
        "exactly at ts[-1]; no trial is shorter than dt_min unless it ends at ts[-1]; the error norm recorded equals an "
        "independent mixed rtol/atol RMS recomputation from the step outputs; accept <=> (err <= 1 or controller at "
        "dt_min); a rejection strictly shrinks the step; every accepted state equals two half steps taken by the harness "
        "itself from the previous accepted state and extra solver state (independent driver, 1e-12); returned values are "
        "the two-half-step states (bit-exact at "
        "ts[-1], linear interpolants inside); the number of trials stays below the termination bound; no NaN/crash. "
        "Non-trivial = >= 1 rejection or >= 1 dt_min clamp, and >= 3 accepted steps; distinct = distinct canonical JSON.")
ASSUMPTIONS = ["controller decisions are observed by wrapping the two module functions for the duration of a case "
               "(restored afterwards); the error norm is recomputed independently from the recorded step outputs",
               "termination is decided by a trial-count bound derived from dt_min and the minimum shrink factor, not by "
               "a clock"]
BUDGET = {
    "quick": {"examples": 200, "shards": 8, "case_timeout": 120, "wall_budget": 240},
    "thorough": {"examples": 5000, "shards": 16, "case_timeout": 300, "wall_budget": 1800},
}
FUZZ = {"thorough": dict(runs=20000, procs=8, wall_s=600)}
TOLERANCES = {"error_norm_recomputation": "1e-9 relative", "dt_min": "trial >= dt_min*(1-1e-9) unless it ends at ts[-1]"}


@st.composite
def _case(draw, tier):
    # single-precision states too (times stay float64 tensors): the error norm and its floor are the same formula
    spec, combo = draw(solve.spec_and_combo(all_levy=False, dtypes=("float64", "float64", "float32")))
    spec["gscale"] = draw(st.sampled_from([0.3, 1.0, 2.0, 5.0]))
    spec["fscale"] = draw(st.sampled_from([0.5, 1.0, 4.0]))
    t0 = draw(st.sampled_from([0.0, 0.0, -0.5, 1.0, 0.1]))
    span = draw(st.sampled_from([0.2, 0.5, 1.0, 1.0, 2.0]))
    t1 = t0 + span
    if draw(st.sampled_from([False, False, False, True])):
        # a window that starts at a negative time and ends close to (not at) zero: the last clipped step is then much
        # longer than |ts[-1]|, where curr_t + (ts[-1] - curr_t) need not round to ts[-1]
        t0, t1 = draw(st.sampled_from([(-1.3, -0.007), (-0.5, 0.0093), (-1.0, 0.013), (-0.7, 0.0371), (-2.0, 0.11),
                                       (-0.993, 0.007), (-0.21, -0.0003)]))
        span = t1 - t0
    dt_min = draw(st.sampled_from([1e-1, 2e-2, 1e-2, 1e-3]))
    dt = dt_min * draw(st.sampled_from([1.0, 2.0, 5.0, 10.0, 30.0]))
    if span / dt_min > (400 if tier == "quick" else 2000):
        dt_min = span / (400 if tier == "quick" else 2000)
        dt = max(dt, dt_min)
    tol = 10.0 ** draw(st.integers(-6, 1))
    return {"spec": spec, "combo": combo, "t0": t0, "t1": t1, "dt": dt, "dt_min": dt_min,
            "rtol": tol * draw(st.sampled_from([0.1, 1.0, 10.0])), "atol": tol,
            "outs": draw(st.lists(st.floats(0.02, 0.98), min_size=0, max_size=3)),
            "entropy": draw(st.integers(0, 2 ** 31 - 2)),
            # dt, dt_min, rtol, atol are typed Scalar = Union[float, Tensor]: optionally they are passed as 0-dim tensors
            "scalars_as_tensors": draw(st.sampled_from([False, False, False, True]))}


@st.composite
def _clamped_case(draw, tier):
    """Tolerances so tight that every step is clamped to dt_min: the accepted grid is t0 + k*dt_min accumulated in floating
    point, whose last step is often a rounding remainder a few ulp long (it cannot be halved)."""
    case = draw(_case(tier))
    dt_min = draw(st.sampled_from([0.02, 0.01, 0.1, 0.013, 0.05, 0.003]))
    n = draw(st.integers(3, 60 if tier == "quick" else 300))
    case.update({"dt_min": dt_min, "dt": dt_min * draw(st.sampled_from([1.0, 1.0, 2.0])), "t1": case["t0"] + n * dt_min,
                 "rtol": 1e-7, "atol": 1e-7})
    return case


@st.composite
def _streak_case(draw, tier):
    """An initial step many orders of magnitude too large for the tolerances (and for the horizon): the controller has to
    reject a long run of consecutive trials before it reaches an acceptable size, far above dt_min."""
    case = draw(_case(tier))
    span = draw(st.sampled_from([2e-3, 1e-2, 5e-2]))
    case.update({"t1": case["t0"] + span, "dt": span * 10.0 ** draw(st.integers(2, 5)), "dt_min": span * 1e-3,
                 "atol": 10.0 ** draw(st.integers(-8, -6)), "rtol": draw(st.sampled_from([0.0, 1e-8])), "streak": True})
    case["spec"]["gscale"] = draw(st.sampled_from([1.0, 2.0, 5.0]))
    return case


def strategy(tier):
    return st.one_of(_case(tier), _case(tier), _clamped_case(tier), _streak_case(tier))


def run_case(case):
    import torchsde
    from torchsde._core import adaptive_stepping
    spec, combo = case["spec"], case["combo"]
    sde = sdes.build_generic(spec)
    y0 = sdes.y0_for(spec)
    t0, t1 = case["t0"], case["t1"]
    vals = sorted({t0, t1} | {t0 + (t1 - t0) * f for f in case["outs"]})
    ts = torch.tensor(vals, dtype=torch.float64)
    if any(float(b) <= float(a) for a, b in zip(ts[:-1], ts[1:])):
        return Result(labels=["degenerate_ts"])
    tsf = [float(t) for t in ts]
    dt, dt_min, rtol, atol = case["dt"], case["dt_min"], case["rtol"], case["atol"]
    sig = {"method": combo["method"], "noise_type": spec["noise_type"], "grad_free": bool(combo["options"])}
    span = tsf[-1] - tsf[0]
    max_rej = math.log(max(dt / dt_min, 1.0) * 1.4 ** 3) / math.log(1 / 0.94) + 5
    bound = int((span / dt_min + 3) * (max_rej + 1))
    inner = sdes.make_bm(torchsde, spec, tsf[0], tsf[-1], case["entropy"], levy=combo["levy"])
    rec = brownian_tools.make_recording(inner)
    real_call = rec.__class__.__call__

    def guarded(self, *a, **k):
        if len(self.log) > 3 * bound + 10:
            raise WorkBudgetExceeded(f"more than {bound} trials")
        return real_call(self, *a, **k)

    rec.__class__.__call__ = guarded
    errs, updates = [], []
    real_ce, real_up = adaptive_stepping.compute_error, adaptive_stepping.update_step_size

    def ce(y11, y12, rtol_, atol_, *a, **k):
        out = real_ce(y11, y12, rtol_, atol_, *a, **k)
        errs.append((y11.detach().clone(), y12.detach().clone(), out))
        return out

    def up(*a, **k):
        out = real_up(*a, **k)
        updates.append((k.get("error_estimate", a[0] if a else None), k.get("prev_step_size"), out[0]))
        return out

    checks = 0

    def fail(clause, msg):
        return Result(nontrivial=True, checks=checks, fail=Fail(clause, msg, sig))

    try:
        with brownian_tools.patched(adaptive_stepping, "compute_error", ce), \
                brownian_tools.patched(adaptive_stepping, "update_step_size", up), torch.no_grad():
            given = [dt, rtol, atol, dt_min]
            if case.get("scalars_as_tensors"):
                given = [torch.tensor(x, dtype=torch.float64) for x in given]
            ys = torchsde.sdeint(sde, y0, ts, bm=rec, method=combo["method"], dt=given[0], adaptive=True, rtol=given[1],
                                 atol=given[2], dt_min=given[3], options=dict(combo["options"]) or None)
            if [float(x) for x in given] != [dt, rtol, atol, dt_min]:
                return fail("caller_scalar_modified", f"dt/rtol/atol/dt_min passed as 0-dim tensors came back as "
                                                      f"{[float(x) for x in given]} instead of {[dt, rtol, atol, dt_min]}")
    except WorkBudgetExceeded as e:
        return fail("nontermination:trial_budget", f"{e} (bound from dt_min={dt_min}, span={span})")
    except AssertionError as e:
        if "nans" in str(e).lower():
            steps = [(a, b) for a, b, *_ in rec.log[-3:]]
            return fail("nan_in_error_estimate", f"adaptive {solve.combo_label(combo)} produced NaN in the error "
                                                 f"estimate; last Brownian queries {steps}")
        raise
    log = [(a, b) for a, b, *_ in rec.log]
    # ---- parse trials ----------------------------------------------------------------------------------------
    trials = []   # (a, b, mid) - mid None for a step too short to be halved, taken as one plain step
    i = 0
    unhalvable = 0
    while i < len(log):
        a, b = log[i]
        if i + 2 < len(log) and log[i + 1][0] == a and log[i + 2][1] == b and log[i + 1][1] == log[i + 2][0]:
            trials.append((a, b, log[i + 1][1]))
            i += 3
        elif not (a < 0.5 * (a + b) < b):
            trials.append((a, b, None))
            unhalvable += 1
            i += 1
        else:
            return fail("trial_structure", f"Brownian queries {log[i:i + 3]} are not a (full, half, half) trial")
    checks += 1
    if len(trials) - unhalvable != len(errs) or len(errs) != len(updates):
        return fail("trial_structure", f"{len(trials)} trials but {len(errs)} error estimates / {len(updates)} updates")
    accepted = []
    n_rej = n_clamp = 0
    streak = max_streak = 0
    k = -1
    for kk, (a, b, mid) in enumerate(trials):
        if mid is None:
            # plain step: must be accepted as is (next trial, if any, starts at b)
            if not (tsf[0] <= a < b <= tsf[-1]) or (kk + 1 < len(trials) and trials[kk + 1][0] != b):
                return fail("trial_structure", f"un-halvable step [{a},{b}] is not taken as a plain accepted step")
            accepted.append((a, b, None))
            continue
        k += 1
        checks += 1
        if not (tsf[0] <= a < b <= tsf[-1]):
            return fail("outside_interval", f"trial [{a}, {b}] is not inside [{tsf[0]}, {tsf[-1]}] or does not advance")
        if not (a <= mid <= b):
            return fail("trial_structure", f"midpoint {mid} outside trial [{a}, {b}]")
        if b - a < dt_min * (1 - 1e-9) and b != tsf[-1]:
            return fail("below_dt_min", f"trial [{a}, {b}] of length {b - a:.3e} is shorter than dt_min={dt_min} and is "
                                        f"not the clipped last step")
        y11, y12, err = errs[k]
        tolv = (rtol * torch.max(y11.abs(), y12.abs()) + atol).clamp_min(1e-7)
        mine = float(torch.sqrt((((y11 - y12) / tolv) ** 2).mean()).clamp_min(1e-7))
        checks += 1
        if not abs(mine - err) <= (1e-9 if y11.dtype == torch.float64 else 1e-4) * max(1.0, abs(mine)):
            return fail("error_norm", f"error estimate {err!r} differs from the mixed rtol/atol RMS norm {mine!r}")
        new_step = updates[k][2]
        at_min = new_step < dt_min or new_step <= dt_min
        is_last = kk == len(trials) - 1
        acc = (b == tsf[-1] and is_last) or (not is_last and trials[kk + 1][0] == b)
        rej = (not is_last) and trials[kk + 1][0] == a
        checks += 1
        if acc == rej:
            return fail("trial_structure", f"trial {k} [{a},{b}] is followed by a trial starting at "
                                           f"{trials[kk + 1][0] if not is_last else None}: neither accept nor reject")
        want_acc = (err <= 1) or at_min
        if acc != want_acc:
            return fail("accept_rule", f"trial [{a},{b}] with error estimate {err:.4g}, next step {new_step:.4g}, "
                                       f"dt_min {dt_min}: {'accepted' if acc else 'rejected'}, rule says "
                                       f"{'accept' if want_acc else 'reject'}")
        if new_step < dt_min:
            n_clamp += 1
        streak = streak + 1 if rej else 0
        max_streak = max(max_streak, streak)
        if rej:
            n_rej += 1
            nb = trials[kk + 1][1]
            prev_step = updates[k][1]
            checks += 1
            # the controller's step must strictly shrink; the retried trial is min(step, remaining interval), so it is
            # strictly shorter unless both trials are clipped at ts[-1] (step still longer than what is left)
            if not (new_step < prev_step) or not (nb - a) <= (b - a) or \
                    ((nb - a) == (b - a) and not (nb == tsf[-1] and max(new_step, dt_min) >= (b - a) * (1 - 1e-12))):
                return fail("rejection_does_not_shrink", f"rejected trial [{a},{b}] (step {prev_step:.6g}) retried as "
                                                         f"[{a},{nb}] (step {new_step:.6g})")
        else:
            accepted.append((a, b, y12))
    checks += 1
    if not accepted or accepted[0][0] != tsf[0] or accepted[-1][1] != tsf[-1]:
        return fail("tiling", f"accepted steps run from {accepted[0][0] if accepted else None} to "
                              f"{accepted[-1][1] if accepted else None}, expected [{tsf[0]}, {tsf[-1]}]")
    for (a1, b1, _), (a2, b2, _) in zip(accepted[:-1], accepted[1:]):
        if b1 != a2:
            return fail("tiling", f"accepted steps [{a1},{b1}] and [{a2},{b2}] are not contiguous")
    # ---- returned values are the two-half-step states ----------------------------------------------------------
    checks += 1
    last_known = [x for x in accepted if x[2] is not None]
    if not torch.equal(ys[0], y0):
        return fail("returned_values", "ys[0] != y0")
    if accepted[-1][2] is not None:
        if not torch.equal(ys[-1], accepted[-1][2]):
            return fail("returned_values", "ys[-1] is not the two-half-step state of the last accepted step")
    elif last_known:
        # final un-halvable remainder (a few ulp long): the result may differ from the last two-half-step state only by
        # one plain step of that length
        e = float((ys[-1] - last_known[-1][2]).abs().max()) / max(1.0, float(ys[-1].abs().max()))
        if not e <= 1e-6:
            return fail("returned_values", f"ys[-1] differs from the last two-half-step state by {e:.3e} although the "
                                           f"remaining step was only {accepted[-1][1] - accepted[-1][0]:.3e} long")
    # independent driver over the accepted steps: the harness steps the same solver class itself (two half steps per
    # accepted trial, extra solver state threaded only through accepted steps) and must land on the recorded states
    from torchsde._core import base_sde, methods as _methods
    bm_drv = inner      # the very Brownian object of the run: re-asking an interval returns the same values (C05)
    cls = _methods.select(combo["method"], spec["sde_type"])
    drv = cls(sde=base_sde.ForwardSDE(sde), bm=bm_drv, dt=dt, adaptive=True, rtol=rtol, atol=atol, dt_min=dt_min,
              options=dict(combo["options"]))
    with torch.no_grad():
        st_y = y0
        st_e = drv.init_extra_solver_state(ts[0], y0)
        for (a, b, y12), tr in zip(accepted, [t for t in trials if (t[0], t[1]) in {(x[0], x[1]) for x in accepted}]):
            ta_, tb_ = torch.tensor(a, dtype=torch.float64), torch.tensor(b, dtype=torch.float64)
            if y12 is None:
                st_y, st_e = drv.step(ta_, tb_, st_y, st_e)
                continue
            tm_ = 0.5 * (ta_ + tb_)
            ym, em = drv.step(ta_, tm_, st_y, st_e)
            st_y, st_e = drv.step(tm_, tb_, ym, em)
            checks += 1
            e = float((st_y - y12).abs().max()) / max(1.0, float(y12.abs().max()))
            if not e <= 1e-12:
                return fail("accepted_state_vs_independent_driver",
                            f"state accepted at t={b} differs from two half steps taken by the harness from the previous "
                            f"accepted state (and its extra solver state): rel {e:.3e} ({solve.combo_label(combo)})")
            st_y = y12
    states = [(tsf[0], y0)] + [(b, y) for _, b, y in accepted if y is not None]
    if accepted[-1][2] is None:
        states.append((tsf[-1], ys[-1]))
    for j in range(1, len(tsf) - 1):
        t = tsf[j]
        k = next(i for i in range(1, len(states)) if states[i][0] >= t)
        (ta, ya), (tb, yb) = states[k - 1], states[k]
        want = (tb - t) / (tb - ta) * ya + (t - ta) / (tb - ta) * yb
        e = float((ys[j] - want).abs().max()) / max(1.0, float(want.abs().max()))
        checks += 1
        if not e <= 1e-12:
            return fail("returned_values", f"output at {t} is not the interpolant of the accepted two-half-step states: "
                                           f"rel {e:.3e}")
    checks += 1
    if not bool(torch.isfinite(ys).all()):
        return fail("non_finite_output", "adaptive solve returned non-finite values")
    labels = [solve.combo_label(combo)] + (["scalars_as_0dim_tensors"] if case.get("scalars_as_tensors") else [])
    for flag, nm in ((n_rej > 0, "has_rejection"), (n_clamp > 0, "hit_dt_min"), (n_rej >= 5, "rejections>=5"),
                     (max_streak >= 8, "consecutive_rejections>=8")):
        if flag:
            labels.append(nm)
    return Result(nontrivial=(n_rej > 0 or n_clamp > 0) and len(accepted) >= 3, labels=labels, checks=checks,
                  metrics={"trials": len(trials), "rejections": n_rej, "dt_min_clamps": n_clamp, "max_consecutive_rejections": max_streak,
                           "trial_bound_used_fraction": len(trials) / bound})
