"""C09 - adjoint: same forward values as sdeint; gradients converge to the true gradient."""
import math

import torch
from hypothesis import strategies as st

from .. import sdes, sdes_closed, solve
from ..core import Fail, Result

ID = "C09"
RULE = ("three case kinds. (forward) generic SDE x accepted combination x ts/dt x entropy: sdeint_adjoint outputs are "
        "bit-identical to sdeint outputs. (converge) closed-form family with per-row parameters (so gradients are per "
        "path) x every admissible (method, adjoint_method) pair x loss on 2 or many output times with drawn weights, a "
        "drawn subset of output times (possibly excluding the last) having weight zero: the "
        "true gradient w.r.t. y0 and every parameter is autograd through the closed-form solution evaluated on the same "
        "Brownian object; RMS over paths of |grad_adjoint - grad_true| along dt = T*2^-3..2^-8 must have slope >= 0.35 "
        "(Ito non-additive; reversible Heun non-additive) / 0.75 (Stratonovich, additive) and finest <= coarsest/4. "
        "(bookkeeping) only the tensors asked for receive gradients: parameters outside adjoint_params, with "
        "requires_grad=False, and y0 without grad keep .grad None; parameters the SDE does not use get zeros. "
        "Systematic enumeration of every (sde_type, noise_type, method, adjoint_method) cell plus generated cases. "
        "Non-trivial = (converge) diffusion parameters receive gradient; (forward) >= 3 steps; distinct = distinct JSON.")
ASSUMPTIONS = ["order-0.5 adjoints cannot resolve sub-percent formula errors end-to-end - that is what C11 is for",
               "true gradients come from autograd through the closed-form pathwise solution"]
BUDGET = {
    "quick": {"examples": 64, "shards": 16, "case_timeout": 300, "wall_budget": 280},
    "thorough": {"examples": 960, "shards": 16, "case_timeout": 900, "wall_budget": 3000},
}
TOLERANCES = {"slope_ito_nonadditive": 0.35, "slope_otherwise": 0.75, "finest_vs_coarsest": "1/2.5 (slow) or 1/4",
              "forward_values": "bit-identical"}

ADJ_ITO = {"diagonal": ["euler", "milstein"], "scalar": ["euler"], "additive": ["euler"], "general": ["euler"]}
ADJ_STRAT = {"diagonal": ["midpoint", "heun", "euler_heun", "milstein"], "scalar": ["midpoint", "heun", "euler_heun"],
             "additive": ["midpoint", "heun", "euler_heun"], "general": ["midpoint", "heun", "euler_heun"]}


def admissible_pairs():
    out = []
    for c in sdes.accepted_combos(include_grad_free=False, all_levy=False):
        if c["method"] == "log_ode" and c["levy"] != "davie":
            continue
        table = ADJ_ITO if c["sde_type"] == "ito" else ADJ_STRAT
        ams = list(table[c["noise_type"]])
        if c["method"] == "reversible_heun":
            ams = ["adjoint_reversible_heun"] + ams[:1]
        for am in ams:
            out.append(dict(c, adjoint_method=am))
    return out


FAMILY_FOR = {"diagonal": [("reducible", "sinh"), ("reducible", "gd"), ("reducible", "exp"), ("scaled_additive", None)],
              "scalar": [("reducible", "gd"), ("linear_commuting", None)],
              "additive": [("scaled_additive", None)],
              "general": [("linear_commuting", None), ("scaled_additive", None)]}


def _spec_from(rnd, sde_type, nt, fam, phi):
    def coef(lo, hi):
        return round(rnd.uniform(lo, hi), 2)

    def signed(lo, hi):
        return coef(lo, hi) * rnd.choice([-1, 1])
    spec = {"family": fam, "sde_type": sde_type, "noise_type": nt, "per_row": True, "seed": rnd.randrange(2 ** 31),
            "c": rnd.choice([0.0, 0.5])}
    if fam == "reducible":
        d = rnd.randint(1, 2)
        spec.update({"d": d, "m": d if nt == "diagonal" else 1, "phi": phi,
                     "a": [signed(0.3, 0.7) for _ in range(3)], "b": [coef(-0.6, 0.6) for _ in range(3)]})
    elif fam == "linear_commuting":
        spec.update({"d": 2, "m": 1 if nt == "scalar" else 2, "alpha": [coef(-0.5, 0.2), coef(-0.6, 0.6)],
                     "beta": [[coef(-0.4, 0.4), signed(0.3, 0.6)] for _ in range(3)]})
    else:
        d = rnd.randint(1, 2)
        spec.update({"d": d, "m": d if nt == "diagonal" else rnd.randint(1, 2), "beta": [coef(-1, 1) for _ in range(3)],
                     "lam": coef(-0.6, 0.4), "om": rnd.choice([0.0, 1.0])})
    return spec


def enumerate_cases(tier):
    import os
    import random
    seed = int(os.environ.get("VERIF_SEED", "1") or 1)
    # forward kind: every accepted cell with output times off the step grid, once with fixed steps and once adaptively, with
    # backward-only keyword arguments that differ from the forward ones
    for rnd, spec, combo in solve.enumerate_cells(9007, all_levy=False):
        for adaptive in (False, True):
            dt = rnd.choice([0.1, 0.125, 0.3])
            n = rnd.randint(3, 7)
            t0 = rnd.choice([0.0, 0.1, -0.5])
            yield {"kind": "forward", "spec": spec, "combo": combo,
                   "time": {"t0": t0, "t1": t0 + (n + rnd.choice([0.0, 0.4])) * dt, "dt": dt, "tdtype": "float64"},
                   "outs": [rnd.uniform(0.05, 0.45), rnd.uniform(0.55, 0.95)], "entropy": rnd.randrange(2 ** 31 - 2),
                   "adaptive": adaptive, "adjoint_kw": rnd.choice(["tols", "tols+adaptive", "adaptive", "options", None]),
                   "y0_grad": rnd.random() < 0.5, "float32_state": rnd.random() < 0.35}
    for idx, pair in enumerate(admissible_pairs()):
        rnd = random.Random(seed * 7919 + idx)
        fams = FAMILY_FOR[pair["noise_type"]]
        # quick: one family per Stratonovich cell (rotating with the seed), every family for Ito cells (the corrected Ito
        # adjoint drift is the delicate part); thorough: every family everywhere
        if tier == "quick" and pair["sde_type"] != "ito":
            # (the reversible pair always gets the first family: nonlinear where the noise type has one)
            fams = [fams[0 if pair["adjoint_method"] == "adjoint_reversible_heun" else (seed + idx) % len(fams)]]
        for fam, phi in fams:
            n_out = rnd.choice([1, 1, 2, 4])
            mask = [rnd.choice([1, 1, 0]) for _ in range(n_out)]
            if not any(mask):
                mask[rnd.randrange(n_out)] = 1
            if pair["adjoint_method"] == "adjoint_reversible_heun" and (fam, phi) == fams[0]:
                # the pair that carries solver state through the backward pass always also gets a loss that ignores the
                # last output time(s)
                n_out = max(n_out, 2)
                mask = [1] + [rnd.choice([1, 0]) for _ in range(n_out - 2)] + [0]
            yield {"kind": "converge", "pair": pair, "spec": _spec_from(rnd, pair["sde_type"], pair["noise_type"], fam, phi),
                   "t0": rnd.choice([0.0, 0.5]), "T": rnd.choice([0.5, 1.0]), "entropy": rnd.randrange(2 ** 31 - 2),
                   "y0seed": rnd.randrange(2 ** 31), "wseed": rnd.randrange(2 ** 31), "n_out": n_out, "mask": mask,
                   # an adaptive backward solve as well: always for the reversible Heun pair, for a third of the others
                   "adjoint_adaptive": pair["adjoint_method"] == "adjoint_reversible_heun" or (idx + seed) % 3 == 0}


@st.composite
def _forward_case(draw, tier):
    spec, combo = draw(solve.spec_and_combo(all_levy=False))
    tset = draw(solve.time_setup(max_steps=12))
    return {"kind": "forward", "spec": spec, "combo": combo, "time": tset,
            "outs": draw(st.lists(st.floats(0.02, 0.98), min_size=0, max_size=3)),
            "entropy": draw(st.integers(0, 2 ** 31 - 2)), "adaptive": draw(st.sampled_from([False, False, True])),
            # keyword arguments that only concern the backward solve (drawn; None = leave at default): they must not
            # influence the forward values
            "adjoint_kw": draw(st.sampled_from([None, None, "tols", "adaptive", "tols+adaptive", "options"])),
            "y0_grad": draw(st.booleans()),
            # single-precision state, parameters and Brownian motion with the (tensor) times in double precision
            "float32_state": draw(st.sampled_from([False, False, True]))}


@st.composite
def _book_case(draw, tier):
    spec, combo = draw(solve.spec_and_combo(include_grad_free=False, all_levy=False))
    return {"kind": "bookkeeping", "spec": spec, "combo": combo, "entropy": draw(st.integers(0, 2 ** 31 - 2)),
            "mode": draw(st.sampled_from(["subset_params", "frozen_param", "y0_no_grad", "default_params",
                                          "empty_params", "renamed_default_params", "nonleaf_param",
                                          "duplicate_params"]))}


@st.composite
def _converge_case(draw, tier):
    import random
    pair = draw(st.sampled_from(admissible_pairs()))
    fam, phi = draw(st.sampled_from(FAMILY_FOR[pair["noise_type"]]))
    rnd = random.Random(draw(st.integers(0, 2 ** 31 - 1)))
    return {"kind": "converge", "pair": pair, "spec": _spec_from(rnd, pair["sde_type"], pair["noise_type"], fam, phi),
            "t0": draw(st.sampled_from([0.0, 0.5, -1.0])), "T": draw(st.sampled_from([0.5, 1.0])),
            "entropy": draw(st.integers(0, 2 ** 31 - 2)), "y0seed": draw(st.integers(0, 2 ** 31 - 1)),
            "wseed": draw(st.integers(0, 2 ** 31 - 1)), "n_out": draw(st.sampled_from([1, 2, 4])),
            "mask": draw(st.lists(st.sampled_from([1, 1, 0]), min_size=4, max_size=4)),
            "adjoint_adaptive": draw(st.sampled_from([False, False, True]))}


def strategy(tier):
    return st.one_of(_forward_case(tier), _forward_case(tier), _book_case(tier), _converge_case(tier))


def run_case(case):
    return {"forward": _run_forward, "bookkeeping": _run_book, "converge": _run_converge}[case["kind"]](case)


def _run_forward(case):
    import torchsde
    spec, combo, tm = case["spec"], case["combo"], case["time"]
    if case.get("float32_state"):
        spec = dict(spec, dtype="float32")
    sde = sdes.build_generic(spec)
    y0 = sdes.y0_for(spec)
    vals = sorted({tm["t0"], tm["t1"]} | {tm["t0"] + (tm["t1"] - tm["t0"]) * f for f in case["outs"]})
    ts = torch.tensor(vals, dtype=torch.float64)
    if any(float(b) <= float(a) for a, b in zip(ts[:-1], ts[1:])):
        return Result(labels=["degenerate_ts"])
    kw = dict(adaptive=True, rtol=1e-2, atol=1e-2, dt_min=tm["dt"] / 8) if case["adaptive"] else {}
    akw = {}
    ak = case.get("adjoint_kw") or ""
    if "tols" in ak:
        akw.update(adjoint_rtol=0.3, adjoint_atol=0.2)
    if "adaptive" in ak:
        akw.update(adjoint_adaptive=True)
    if "options" in ak:
        akw.update(adjoint_options={"unused_key": 1})
    outs = []
    import contextlib
    import warnings
    for fn in (torchsde.sdeint, torchsde.sdeint_adjoint):
        bm = sdes.make_bm(torchsde, spec, ts[0], ts[-1], case["entropy"], levy=combo["levy"])
        adj = fn is torchsde.sdeint_adjoint
        # with a graph (y0 requires grad: the adjoint machinery is engaged) or without (plain evaluation)
        y_in = y0.clone().requires_grad_(True) if case.get("y0_grad") else y0
        with (contextlib.nullcontext() if case.get("y0_grad") else torch.no_grad()), warnings.catch_warnings():
            warnings.simplefilter("ignore")
            outs.append(fn(sde, y_in, ts, bm=bm, method=combo["method"], dt=tm["dt"],
                           options=dict(combo["options"]) or None, **kw, **(akw if adj else {})).detach())
    sig = {"method": combo["method"], "noise_type": spec["noise_type"], "kind": "forward"}
    fail = None
    if not torch.equal(outs[0], outs[1]):
        fail = Fail("forward_values_differ", f"sdeint_adjoint returns different values than sdeint for "
                                             f"{solve.combo_label(combo)}: max diff "
                                             f"{float((outs[0] - outs[1]).abs().max()):.3e}", sig)
    steps = (tm["t1"] - tm["t0"]) / tm["dt"]
    return Result(nontrivial=steps >= 3, labels=["kind=forward", solve.combo_label(combo),
                                                 "adaptive" if case["adaptive"] else "fixed", f"adjoint_kwargs={ak or 'default'}", f"state={spec['dtype']}/ts=float64",
                                                 "with_graph" if case.get("y0_grad") else "no_grad"],
                  checks=1, fail=fail)


def _run_book(case):
    import torchsde
    spec, combo, mode = case["spec"], case["combo"], case["mode"]
    sde = sdes.build_generic(spec)
    y0 = sdes.y0_for(spec).requires_grad_(mode != "y0_no_grad")
    ts = torch.tensor([0.0, 0.25, 0.5], dtype=torch.float64)
    bm = sdes.make_bm(torchsde, spec, 0.0, 0.5, case["entropy"], levy=combo["levy"])
    params = dict(sde.named_parameters())
    kw = {}
    asked = set(params)
    if mode == "subset_params":
        keep = sorted(params)[::2]
        kw["adjoint_params"] = [params[k] for k in keep]
        asked = set(keep)
    elif mode == "frozen_param":
        frozen = sorted(params)[0]
        params[frozen].requires_grad_(False)
        asked = set(params) - {frozen}
    elif mode == "empty_params":
        kw["adjoint_params"] = ()
        asked = set()
    elif mode == "duplicate_params":
        # a tensor listed twice (two parameter lists sharing a layer, concatenated): its gradient is still its gradient
        names_ = sorted(params)
        kw["adjoint_params"] = [params[k] for k in names_] + [params[k] for k in names_[::2]]
    run_sde = sde
    if mode == "renamed_default_params":
        # drift and diffusion exposed under other names (`names=`), adjoint_params left at its default: every parameter of
        # the user's module is still an adjoint parameter
        class Renamed(torch.nn.Module):
            def __init__(self, base):
                super().__init__()
                self.base = base
                self.noise_type, self.sde_type = base.noise_type, base.sde_type

            def drift_fn(self, t, y):
                return self.base.f(t, y)

            def diffusion_fn(self, t, y):
                return self.base.g(t, y)
        run_sde = Renamed(sde)
        kw["names"] = {"drift": "drift_fn", "diffusion": "diffusion_fn"}
    w_leaf = None
    if mode == "nonleaf_param":
        # an adjoint parameter that is the output of another computation (a context from an encoder, theta = A @ w): it was
        # asked for, so whatever it was computed from must receive a gradient
        w_leaf = torch.tensor([0.3, -0.2, 0.5], dtype=torch.float64, requires_grad=True)
        a_mat = torch.tensor([[1.0, 0.5, -0.5], [0.25, -1.0, 0.75]], dtype=torch.float64)
        theta = a_mat @ w_leaf

        class WithContext(torch.nn.Module):
            def __init__(self, base, th):
                super().__init__()
                self.base, self.th = base, th
                self.noise_type, self.sde_type = base.noise_type, base.sde_type

            def f(self, t, y):
                return self.base.f(t, y) * (1.0 + self.th[0]) + self.th[1]

            def g(self, t, y):
                return self.base.g(t, y)
        run_sde = WithContext(sde, theta)
        kw["adjoint_params"] = (theta,) + tuple(sde.parameters())
    ys = torchsde.sdeint_adjoint(run_sde, y0, ts, bm=bm, method=combo["method"], dt=0.125, **kw)
    sig = {"mode": mode, "kind": "bookkeeping", "method": combo["method"]}
    if not ys.requires_grad:
        if mode == "y0_no_grad" and not asked:
            return Result(labels=["kind=bookkeeping", "nothing_requires_grad"])
        return Result(nontrivial=True, checks=1, fail=Fail("bookkeeping", f"output does not require grad ({mode})", sig))
    (ys ** 2).sum().backward()
    checks = 0
    for name, p in params.items():
        checks += 1
        if name in asked:
            if p.grad is None:
                return Result(nontrivial=True, checks=checks, fail=Fail(
                    "bookkeeping:missing_gradient", f"parameter {name} was asked for but has no gradient ({mode})", sig))
            if name == "unused" and float(p.grad.abs().max()) != 0.0:
                return Result(nontrivial=True, checks=checks, fail=Fail(
                    "bookkeeping:unused_parameter_nonzero", f"unused parameter received gradient {p.grad.tolist()}", sig))
        elif p.grad is not None:
            return Result(nontrivial=True, checks=checks, fail=Fail(
                "bookkeeping:unrequested_gradient", f"parameter {name} was not asked for but received a gradient "
                                                    f"({mode})", sig))
    if mode == "duplicate_params":
        sde_u = sdes.build_generic(spec)
        y0_u = sdes.y0_for(spec).requires_grad_(True)
        bm_u = sdes.make_bm(torchsde, spec, 0.0, 0.5, case["entropy"], levy=combo["levy"])
        ys_u = torchsde.sdeint_adjoint(sde_u, y0_u, ts, bm=bm_u, method=combo["method"], dt=0.125)
        (ys_u ** 2).sum().backward()
        for (name, p), (_, q) in zip(sde.named_parameters(), sde_u.named_parameters()):
            checks += 1
            gp = torch.zeros_like(p) if p.grad is None else p.grad
            gq = torch.zeros_like(q) if q.grad is None else q.grad
            if not torch.allclose(gp, gq, rtol=1e-9, atol=1e-12):
                ratio = float(gp.abs().max()) / max(float(gq.abs().max()), 1e-300)
                return Result(nontrivial=True, checks=checks, fail=Fail(
                    "bookkeeping:duplicate_param_gradient",
                    f"parameter {name} listed {'twice' if name in sorted(params)[::2] else 'once'} in adjoint_params received "
                    f"{ratio:.3g} x the gradient it receives when every tensor is listed once", sig))
    if w_leaf is not None:
        checks += 1
        if w_leaf.grad is None or float(w_leaf.grad.abs().max()) == 0.0:
            return Result(nontrivial=True, checks=checks, fail=Fail(
                "bookkeeping:missing_gradient", "a non-leaf tensor (theta = A @ w) was passed in adjoint_params and the drift "
                "depends on it, but nothing reaches w (gradient " + ("None" if w_leaf.grad is None else "zero") + ")", sig))
    checks += 1
    if (y0.grad is None) != (mode == "y0_no_grad"):
        return Result(nontrivial=True, checks=checks, fail=Fail(
            "bookkeeping:y0", f"y0.grad is {'None' if y0.grad is None else 'set'} in mode {mode}", sig))
    return Result(nontrivial=True, labels=["kind=bookkeeping", f"mode={mode}"], checks=checks)


def _slope(xs, ys):
    n = len(xs)
    mx, my = sum(xs) / n, sum(ys) / n
    return sum((x - mx) * (y - my) for x, y in zip(xs, ys)) / sum((x - mx) ** 2 for x in xs)


def _run_converge(case):
    import torchsde
    pair, spec = case["pair"], case["spec"]
    B = 512
    t0, T = case["t0"], case["T"]
    n_out = case["n_out"]
    tsf = [t0 + T * (i / n_out) for i in range(n_out + 1)]
    ts = torch.tensor(tsf, dtype=torch.float64)
    gen = torch.Generator().manual_seed(case["wseed"])
    w = torch.randn(n_out, B, spec["d"], generator=gen, dtype=torch.float64)
    # losses depending on a subset of the output times (possibly not the last one)
    mask = list(case.get("mask", [1] * n_out))[:n_out]
    if not any(mask):
        mask[0] = 1
    w = w * torch.tensor(mask, dtype=torch.float64).reshape(-1, 1, 1)
    bm = torchsde.BrownianInterval(t0=tsf[0], t1=tsf[-1], size=(B, spec["m"]), dtype=torch.float64,
                                   entropy=case["entropy"], levy_area_approximation=pair["levy"], cache_size=None)
    label = f"{pair['sde_type']}/{pair['noise_type']}/{pair['method']}->{pair['adjoint_method']}"
    sig = {"sde_type": pair["sde_type"], "noise_type": pair["noise_type"], "method": pair["method"],
           "adjoint_method": pair["adjoint_method"], "family": spec["family"]}

    def fresh():
        sde = sdes_closed.compile_spec(spec, B)
        y0 = sde.y0(B, case["y0seed"]).requires_grad_(True)
        return sde, y0

    # true gradient: autograd through the closed form on the same Brownian object
    sde, y0 = fresh()
    loss = 0.0
    for i in range(1, n_out + 1):
        loss = loss + (w[i - 1] * sde.exact(y0, tsf[0], tsf[i], bm(tsf[0], tsf[i]))).sum()
    names = [n for n, _ in sde.named_parameters()]
    true = torch.autograd.grad(loss, [y0] + list(sde.parameters()), allow_unused=True)
    true = [torch.zeros_like(p) if g_ is None else g_ for g_, p in zip(true, [y0] + list(sde.parameters()))]

    def per_path(gs):
        return torch.cat([g_.reshape(B, -1) for g_ in gs], dim=1)

    true_pp = per_path(true)
    errs = []
    ks = list(range(3, 9))
    for k in ks:
        dt = T * 2.0 ** -k            # n_out divides 2^k, so every output time lies on the step grid
        sde, y0 = fresh()
        ys = torchsde.sdeint_adjoint(sde, y0, ts, bm=bm, method=pair["method"], adjoint_method=pair["adjoint_method"],
                                     dt=dt)
        (w * ys[1:]).sum().backward()
        got = [y0.grad] + [p.grad if p.grad is not None else torch.zeros_like(p) for p in sde.parameters()]
        errs.append(float(torch.sqrt(((per_path(got) - true_pp) ** 2).sum(1).mean())))
    # the same gradient with an ADAPTIVE backward solve (adjoint_adaptive=True) at the finest dt as initial step: the
    # backward pass then takes trial steps (full, half, half) from one augmented state and may reject them
    err_adapt = None
    if case.get("adjoint_adaptive"):
        import warnings
        sde, y0 = fresh()
        with warnings.catch_warnings():
            warnings.simplefilter("ignore")
            ys = torchsde.sdeint_adjoint(sde, y0, ts, bm=bm, method=pair["method"], adjoint_method=pair["adjoint_method"],
                                         dt=T * 2.0 ** -ks[-1], adjoint_adaptive=True, adjoint_rtol=1e-3, adjoint_atol=1e-3)
            (w * ys[1:]).sum().backward()
        got = [y0.grad] + [p.grad if p.grad is not None else torch.zeros_like(p) for p in sde.parameters()]
        err_adapt = float(torch.sqrt(((per_path(got) - true_pp) ** 2).sum(1).mean()))
    checks = 1
    labels = ["kind=converge", label, f"family={spec['family']}", f"outputs={n_out}"]
    if not all(mask):
        labels.append("loss_on_subset_of_outputs")
    if not mask[-1]:
        labels.append("loss_ignores_last_output")
    if err_adapt is not None:
        labels.append("adaptive_backward_solve")
    if not all(math.isfinite(e) for e in errs):
        return Result(nontrivial=True, checks=checks, labels=labels, fail=Fail(
            "non_finite_gradient", f"{label} on {spec['family']}: gradient errors {errs}", sig))
    gscale = float(torch.sqrt((true_pp ** 2).sum(1).mean()))
    floor = 1e-9 * max(1.0, gscale)
    window = [(k, e) for k, e in zip(ks, errs) if e > floor]
    if len(window) < 4:
        return Result(nontrivial=False, labels=labels + ["error_at_rounding_level"], checks=checks)
    # regression over the whole ladder: an order-0.5 gradient error over 512 paths is too noisy for a 4-point window
    # (seed 4: last-4 slope 0.33 while the six points fall by a factor 6.6, i.e. 0.54 per halving)
    slope = _slope([-k * math.log(2) for k, _ in window], [math.log(e) for _, e in window])
    slow = (pair["sde_type"] == "ito" and pair["noise_type"] != "additive") or \
        (pair["method"] == "reversible_heun" and pair["noise_type"] != "additive")
    need = 0.35 if slow else 0.75
    gain = 2.5 if slow else 4.0
    fail = None
    if not slope >= need:
        fail = Fail("gradient_does_not_converge_at_rate",
                    f"{label} on {spec['family']}: RMS gradient error {['%.3e' % e for e in errs]} over dt=T*2^-3..2^-8 has "
                    f"slope {slope:.3f} < {need} (true gradient RMS {gscale:.3e})", sig)
    elif not errs[-1] <= errs[0] / gain:
        fail = Fail("gradient_does_not_converge", f"{label} on {spec['family']}: finest error {errs[-1]:.3e} not below "
                                                  f"1/{gain} of the coarsest {errs[0]:.3e}", sig)
    elif err_adapt is not None and not err_adapt <= 2.0 * errs[0]:
        # calibrated on the unchanged tree: the adaptive backward error never exceeded 0.7 x the coarsest fixed-step error
        fail = Fail("adaptive_backward_gradient", f"{label} on {spec['family']}: with adjoint_adaptive=True (rtol=atol=1e-3, "
                                                  f"initial step T*2^-{ks[-1]}) the RMS gradient error is {err_adapt:.3e}, "
                                                  f"more than twice the error {errs[0]:.3e} of the fixed-step adjoint at "
                                                  f"dt=T/8 (true gradient RMS {gscale:.3e})", sig)
    # diffusion parameters must carry gradient for the case to count
    diff_names = {"reducible": "a", "linear_commuting": "beta", "scaled_additive": "C"}[spec["family"]]
    has = float(true[1 + names.index(diff_names)].abs().max()) > 0
    return Result(nontrivial=has, labels=labels, checks=checks + 1, fail=fail,
                  metrics={"min:slope_minus_required": slope - need, "rel_finest_err": errs[-1] / max(gscale, 1e-300),
                           "adaptive_backward_err_over_coarsest_fixed_err": (err_adapt or 0.0) / max(errs[0], 1e-300),
                           "adaptive_backward_rel_err": (err_adapt or 0.0) / max(gscale, 1e-300)})
