"""C13 - chunked (checkpoint-restart) integration equals one-shot integration."""
import torch
from hypothesis import strategies as st

from .. import brownian_tools, sdes, solve
from ..core import Fail, Result

ID = "C13"
RULE = ("case = generic SDE x accepted (method, options, Levy mode) x (t0, dt, t1) x 1..4 restart points drawn from the "
        "one-shot run's own step grid (recorded Brownian query end points) x extra output times. The one-shot solve over "
        "[t0,t2] is compared with the chain of solves restarted from the returned final state and the returned extra "
        "solver state (extra=True -> extra_solver_state=...) with the same Brownian object: final and shared states "
        "bit-identical, extra states bit-identical, concatenated Brownian query log identical. Non-trivial = >= 2 chunks "
        "with >= 2 steps each; distinct = distinct canonical case JSON.")
ASSUMPTIONS = ["restart points are taken from the grid actually used (t0 + k*dt accumulated in floating point)"]
BUDGET = {
    "quick": {"examples": 200, "shards": 4, "case_timeout": 60, "wall_budget": 240},
    "thorough": {"examples": 5000, "shards": 16, "case_timeout": 120, "wall_budget": 1800},
}
FUZZ = {"thorough": dict(runs=20000, procs=8, wall_s=600)}
TOLERANCES = {"all": "bit-identical (torch.equal)"}


@st.composite
def _case(draw, tier):
    spec, combo = draw(solve.spec_and_combo(dtypes=("float64", "float32")))
    tset = draw(solve.time_setup(max_steps=24 if tier == "quick" else 64, dtypes=(spec["dtype"],)))
    return {"spec": spec, "combo": combo, "time": tset,
            "cuts": draw(st.lists(st.integers(0, 10 ** 6), min_size=1, max_size=4)),
            "extra_out": draw(st.lists(st.floats(0.01, 0.99), min_size=0, max_size=3)),
            "entropy": draw(st.integers(0, 2 ** 31 - 2)),
            "cache_size": draw(st.sampled_from([45, 45, 1, 3, None])),
            # how the solver state is handed back: as returned (a tuple), as a list (any Sequence[Tensor] is valid input),
            # and whether the chunks are requested through sdeint_adjoint (same forward values, returns a list)
            "extra_as_list": draw(st.sampled_from([False, False, True])),
            "chain_via_adjoint": draw(st.sampled_from([False, False, False, True])),
            # output times given as a list of Python floats ("Tensor or sequence of float")
            "ts_as_list": draw(st.sampled_from([False, False, True]))}


class MixedSDE(torch.nn.Module):
    """Element-wise diagonal SDE whose coefficient tensors are float64 while the initial state (and the Brownian motion) is
    float32: after the first step the running state is float64. The library accepts this and returns float64 outputs."""

    def __init__(self, sde_type, d, seed):
        super().__init__()
        self.noise_type, self.sde_type = "diagonal", sde_type
        g = torch.Generator().manual_seed(seed)
        self.a = torch.nn.Parameter(torch.randn(d, generator=g, dtype=torch.float64))
        self.b = torch.nn.Parameter(torch.randn(d, generator=g, dtype=torch.float64))
        self.c = torch.nn.Parameter(0.4 + torch.rand(d, generator=g, dtype=torch.float64))

    def f(self, t, y):
        return self.a * torch.tanh(y) + self.b * torch.sin(t)

    def g(self, t, y):
        return self.c * (1 + 0.3 * torch.cos(y))


MIXED_METHODS = [("ito", "euler", "none"), ("ito", "milstein", "none"), ("ito", "srk", "space-time"),
                 ("stratonovich", "midpoint", "none"), ("stratonovich", "heun", "none"),
                 ("stratonovich", "euler_heun", "none"), ("stratonovich", "reversible_heun", "none"),
                 ("stratonovich", "milstein", "none"), ("stratonovich", "log_ode", "davie")]


@st.composite
def _mixed_case(draw, tier):
    k = draw(st.integers(0, len(MIXED_METHODS) - 1))
    return {"kind": "mixed", "which": k, "d": draw(st.integers(1, 3)), "batch": draw(st.integers(1, 3)),
            "dt": draw(st.sampled_from([0.1, 0.125, 0.3])), "n": draw(st.integers(3, 12)),
            "cuts": draw(st.lists(st.integers(0, 10 ** 6), min_size=1, max_size=3)),
            "seed": draw(st.integers(0, 2 ** 31 - 1)), "entropy": draw(st.integers(0, 2 ** 31 - 2))}


def strategy(tier):
    return st.one_of(_case(tier), _case(tier), _case(tier), _case(tier), _mixed_case(tier))


def enumerate_cases(tier):
    """Every accepted cell once: non-dyadic dt, a horizon that ends off the grid, restarts incl. the last grid point."""
    for rnd, spec, combo in solve.enumerate_cells(7003, all_levy=False):
        dt = rnd.choice([0.1, 0.3, 0.05, 1 / 3])
        n = rnd.randint(4, 9)
        t0 = rnd.choice([0.0, 0.1, -0.5])
        yield {"spec": spec, "combo": combo, "time": {"t0": t0, "t1": t0 + (n + 0.4) * dt, "dt": dt, "tdtype": "float64"},
               "cuts": [rnd.randrange(10 ** 6), n - 1, rnd.randrange(10 ** 6)], "extra_out": [0.45],
               "entropy": rnd.randrange(2 ** 31 - 2), "cache_size": rnd.choice([45, 1, None]),
               "extra_as_list": rnd.random() < 0.4, "chain_via_adjoint": rnd.random() < 0.3,
               "ts_as_list": rnd.random() < 0.4}
    import os
    import random
    seed = int(os.environ.get("VERIF_SEED", "1") or 1)
    for k in range(len(MIXED_METHODS)):
        rnd = random.Random(seed * 7019 + k)
        yield {"kind": "mixed", "which": k, "d": 2, "batch": 2, "dt": rnd.choice([0.1, 0.3]), "n": rnd.randint(4, 8),
               "cuts": [rnd.randrange(10 ** 6), rnd.randrange(10 ** 6)], "seed": rnd.randrange(2 ** 31),
               "entropy": rnd.randrange(2 ** 31 - 2)}


def _run_mixed(case):
    import torchsde
    sde_type, method, levy = MIXED_METHODS[case["which"]]
    sde = MixedSDE(sde_type, case["d"], case["seed"])
    g = torch.Generator().manual_seed(case["seed"] + 1)
    y0 = torch.randn(case["batch"], case["d"], generator=g, dtype=torch.float32)
    dt = case["dt"]
    grid = solve.fixed_grid(0.0, case["n"] * dt, dt, torch.float32)
    if len(grid) < 3:
        return Result(labels=["kind=mixed", "too_few_steps"])
    cut_idx = sorted({1 + c % (len(grid) - 2) for c in case["cuts"]})
    bounds = [0] + cut_idx + [len(grid) - 1]
    ts_all = torch.stack([grid[i] for i in bounds])

    def mk():
        return torchsde.BrownianInterval(t0=float(grid[0]), t1=float(grid[-1]), size=(case["batch"], case["d"]),
                                         dtype=torch.float32, entropy=case["entropy"], levy_area_approximation=levy)

    sig = {"method": method, "noise_type": "diagonal", "dtype": "float32 state / float64 coefficients"}
    with torch.no_grad():
        ys_one, extra_one = torchsde.sdeint(sde, y0, ts_all, bm=mk(), method=method, dt=dt, extra=True)
        bm = mk()
        y, extra, got = y0, None, [y0]
        for a, b in zip(bounds[:-1], bounds[1:]):
            kw = {} if extra is None else {"extra_solver_state": extra}
            ys_c, extra = torchsde.sdeint(sde, y, torch.stack([grid[a], grid[b]]), bm=bm, method=method, dt=dt,
                                          extra=True, **kw)
            y = ys_c[-1]
            got.append(y)
    checks = 0
    for i in range(1, len(bounds)):
        checks += 1
        if ys_one[i].dtype != got[i].dtype or not torch.equal(ys_one[i], got[i]):
            d_ = float((ys_one[i].double() - got[i].double()).abs().max())
            return Result(nontrivial=True, checks=checks, fail=Fail(
                "chunked_state_differs", f"mixed precision (float32 state, float64 coefficients), {sde_type}/{method}: state "
                f"at t={float(grid[bounds[i]])} differs between one-shot ({ys_one[i].dtype}) and {len(bounds) - 1}-chunk "
                f"({got[i].dtype}) integration: max diff {d_:.3e}", sig))
    checks += 1
    if len(extra_one) != len(extra) or not all(torch.equal(p_, q_) for p_, q_ in zip(extra_one, extra)):
        return Result(nontrivial=True, checks=checks, fail=Fail(
            "chunked_extra_state_differs", f"mixed precision, {sde_type}/{method}: final extra solver state differs", sig))
    return Result(nontrivial=len(bounds) >= 3, labels=["kind=mixed", f"{sde_type}/diagonal/{method}", f"chunks={len(bounds) - 1}"],
                  checks=checks)


def run_case(case):
    import torchsde
    if case.get("kind") == "mixed":
        return _run_mixed(case)
    spec, combo, tm = case["spec"], case["combo"], case["time"]
    dtype = getattr(torch, spec["dtype"])
    sde = sdes.build_generic(spec)
    y0 = sdes.y0_for(spec)
    dt = tm["dt"]
    grid = solve.fixed_grid(tm["t0"], tm["t1"], dt, dtype)
    grid_f = [float(g) for g in grid]
    if len(grid) < 3:
        return Result(labels=["too_few_steps"])
    t0f, t1f = grid_f[0], grid_f[-1]
    sig = {"method": combo["method"], "noise_type": spec["noise_type"], "dtype": spec["dtype"]}
    cut_idx = sorted({1 + c % (len(grid) - 2) for c in case["cuts"]})
    bounds = [0] + cut_idx + [len(grid) - 1]
    extra_t = sorted({t0f + (t1f - t0f) * f for f in case["extra_out"]})
    all_t = sorted(set([grid_f[i] for i in bounds] + extra_t))
    ts_all = torch.tensor(all_t, dtype=dtype)
    all_t = [float(t) for t in ts_all]
    if any(b <= a for a, b in zip(all_t[:-1], all_t[1:])):
        return Result(labels=["degenerate_ts"])

    def mk_bm():
        return sdes.make_bm(torchsde, spec, t0f, t1f, case["entropy"], levy=combo["levy"],
                            cache_size=case["cache_size"])

    checks = 0
    # one options dict object for the one-shot solve and for every chunk (a caller's dict is an input, not solver state)
    shared_opts = dict(combo["options"]) or None
    opts_before = dict(shared_opts) if shared_opts else None
    with torch.no_grad():
        rec_one = brownian_tools.make_recording(mk_bm())
        as_list = bool(case.get("ts_as_list"))
        ys_one, extra_one = torchsde.sdeint(sde, y0, ts_all.tolist() if as_list else ts_all, bm=rec_one,
                                            method=combo["method"], dt=dt, options=shared_opts, extra=True)
        bm = mk_bm()
        rec = brownian_tools.make_recording(bm)
        y = y0
        extra = None
        modified = None
        pieces = {all_t[0]: y0}
        for a, b in zip(bounds[:-1], bounds[1:]):
            ta, tb = grid_f[a], grid_f[b]
            ts_chunk = torch.tensor([t for t in all_t if ta <= t <= tb], dtype=dtype)
            if extra is not None and case.get("extra_as_list"):
                extra = list(extra)
            kw = {} if extra is None else {"extra_solver_state": extra}
            api = torchsde.sdeint_adjoint if case.get("chain_via_adjoint") else torchsde.sdeint
            handed = [y] + list(extra or [])
            snap = [x.clone() for x in handed]
            ys_c, extra = api(sde, y, ts_chunk.tolist() if as_list else ts_chunk, bm=rec, method=combo["method"], dt=dt,
                              options=shared_opts, extra=True, **kw)
            # the checkpoint (state + extra solver state) a chunk was restarted from is the caller's: it may be restarted
            # from again, so the restarted solve must leave it as it was
            if modified is None and not all(torch.equal(p_, q_) for p_, q_ in zip(handed, snap)):
                modified = ta
            for t, v in zip(ts_chunk, ys_c):
                pieces[float(t)] = v
            y = ys_c[-1]

    def fail(clause, msg):
        return Result(nontrivial=True, checks=checks, fail=Fail(clause, msg, sig))

    checks += 1
    if (dict(shared_opts) if shared_opts else None) != opts_before:
        return fail("options_dict_modified", f"the caller's options dict {opts_before} came back as {shared_opts}")
    checks += 1
    if modified is not None:
        return fail("checkpoint_modified", f"the state / extra solver state handed to the chunk restarted at t={modified} was "
                                           f"changed in place by that solve: restarting from the same checkpoint again would not "
                                           f"continue the trajectory")
    for i, t in enumerate(all_t):
        checks += 1
        if not torch.equal(ys_one[i], pieces[t]):
            d = float((ys_one[i] - pieces[t]).abs().max())
            return fail("chunked_state_differs", f"state at t={t} differs between one-shot and {len(bounds) - 1}-chunk "
                                                 f"integration (max diff {d:.3e}); restart points {[grid_f[i] for i in cut_idx]}")
    checks += 1
    if len(extra_one) != len(extra) or not all(torch.equal(p, q) for p, q in zip(extra_one, extra)):
        return fail("chunked_extra_state_differs", "final extra solver state differs between one-shot and chunked runs")
    checks += 1
    if [(a, b) for a, b, *_ in rec_one.log] != [(a, b) for a, b, *_ in rec.log]:
        return fail("chunked_query_log_differs", f"Brownian queries differ: {len(rec_one.log)} one-shot vs "
                                                 f"{len(rec.log)} chunked")
    steps = [b - a for a, b in zip(bounds[:-1], bounds[1:])]
    labels = [solve.combo_label(combo), f"chunks={len(bounds) - 1}", f"dtype={spec['dtype']}"]
    if len(extra_one):
        labels.append("nonempty_extra_state")
    if case.get("extra_as_list"):
        labels.append("extra_state_passed_as_list")
    if case.get("chain_via_adjoint"):
        labels.append("chunks_via_sdeint_adjoint")
    if case.get("ts_as_list"):
        labels.append("ts_given_as_list_of_floats")
    return Result(nontrivial=len(bounds) >= 3 and sum(1 for s in steps if s >= 2) >= 2, labels=labels, checks=checks,
                  metrics={"steps": len(grid) - 1})
