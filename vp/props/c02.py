"""C02 - each solver step matches the stochastic Taylor expansion of the declared SDE."""
import math

import torch
from hypothesis import strategies as st
from torch import nn

from .. import brownian_tools, core, sdes
from ..core import Fail, Result

ID = "C02"
RULE = ("two case kinds. (taylor) scalar SDE with drift/diffusion generated from a sympy grammar (sums of coef * "
        "{1, cos t, sin t, 1+t/2} * {1, y, sin y, cos y, tanh y, exp(-y^2), y/(1+y^2)}), declared with each of the four "
        "noise types and both calculi, x every accepted (method, options, Levy mode) x base point (t, y). The real "
        "solver.step is called through a stub Brownian motion returning prescribed dW = sqrt(h) xi, U = h^1.5 (xi/2 + "
        "zeta/sqrt(12)), A = 0 on a 12x12 Gauss-Hermite grid of (xi, zeta) for h = 2^-3..2^-12. Oracle: the order-1.5 "
        "Ito-Taylor truncation of the equivalent Ito SDE built from sympy operators L0, L1 (no autograd, no solver "
        "code). With R = step - Taylor: the Gauss-Hermite RMS of R must decay with slope >= p + 1/2 - 0.15 and |E R| "
        "with slope >= p + 1 - 0.2 (or be below 1e-13), p = strong_order of the instantiated solver; a violation needs "
        "both a low fitted slope on the fine half and growth (> 2x, coarsest vs finest third) of the quantity divided by "
        "h^(required-margin), because |E R| may change sign inside the ladder. (exact) generic "
        "multi-dimensional SDEs: Euler and derivative Milstein steps equal y + f h + g dW [+ 1/2 (Dg g)(dW^2 - h | "
        "dW^2)] computed from explicit Jacobians to 1e-12, incl. vector-valued scalar noise with non-symmetric Dg. "
        "Non-trivial (taylor) = g' != 0 and g'' != 0 at the base point (non-additive) and f or g depends on t; "
        "(exact) = d >= 2; distinct = distinct canonical case JSON.")
ASSUMPTIONS = ["numeric, not symbolic: slopes of deterministic functions of h on the fine half of a finite ladder",
               "reversible Heun is examined from its initial extra state only (its multi-step behaviour is C01/C15)",
               "the multi-dimensional expansion (Levy-area terms) is not reproduced; multi-d solvers are covered end-to-end "
               "by C01 and by the exact clause here"]
BUDGET = {
    "quick": {"examples": 200, "shards": 8, "case_timeout": 120, "wall_budget": 280},
    "thorough": {"examples": 4000, "shards": 16, "case_timeout": 300, "wall_budget": 2400},
}
FUZZ = {"thorough": dict(runs=20000, procs=8, wall_s=600)}
TOLERANCES = {"rms_slope_margin": 0.15, "mean_slope_margin": 0.2, "mean_floor": 1e-13, "exact_clause": 1e-12}
TFACT = ["1", "cos_t", "sin_t", "lin_t"]
YTERM = ["1", "y", "sin", "cos", "tanh", "gauss", "rat"]
COEF = [0.3, 0.5, 0.8, 1.0, 1.3, -0.4, -0.7, -1.1]


def _sym():
    import sympy as sp
    t, y = sp.symbols("t y", real=True)
    tf = {"1": sp.Integer(1), "cos_t": sp.cos(t), "sin_t": sp.sin(t), "lin_t": 1 + t / 2}
    yt = {"1": sp.Integer(1), "y": y, "sin": sp.sin(y), "cos": sp.cos(y), "tanh": sp.tanh(y), "gauss": sp.exp(-y ** 2),
          "rat": y / (1 + y ** 2)}
    return sp, t, y, tf, yt


def _expr(terms):
    sp, t, y, tf, yt = _sym()
    return sum((sp.Float(c) * tf[a] * yt[b] for c, a, b in terms), sp.Integer(0))


@st.composite
def _terms(draw, additive=False, nmax=3):
    n = draw(st.integers(1, nmax))
    out = []
    for _ in range(n):
        out.append([draw(st.sampled_from(COEF)), draw(st.sampled_from(TFACT)),
                    "1" if additive else draw(st.sampled_from(YTERM))])
    return out


@st.composite
def _taylor_case(draw, tier):
    combo = draw(st.sampled_from(sdes.accepted_combos(include_grad_free=True, all_levy=False)))
    additive = combo["noise_type"] == "additive"
    return {"kind": "taylor", "combo": combo, "f": draw(_terms()), "g": draw(_terms(additive=additive)),
            "t0": draw(st.sampled_from([0.0, 0.3, 1.1, -0.6])), "y0": draw(st.sampled_from([0.0, 0.4, -0.9, 1.3, 0.15])),
            "nominal_dt": draw(st.sampled_from([0.37, 1.0, 1e-3, 0.05]))}


@st.composite
def _exact_case(draw, tier):
    spec = draw(sdes.generic_specs(noise_types=["diagonal", "scalar", "additive", "general"], max_d=3, max_m=3))
    methods = ["euler"] if spec["sde_type"] == "ito" else []
    if spec["noise_type"] != "general":
        methods.append("milstein")
    if not methods:
        spec["sde_type"] = "ito"
        methods = ["euler"]
    if spec["sde_type"] == "stratonovich" and spec["noise_type"] != "diagonal":
        methods.append("log_ode")           # the step with a prescribed Levy area, against its formula with explicit Jacobians
    if spec["noise_type"] == "general" and draw(st.booleans()):
        spec["sde_type"], methods = "stratonovich", ["log_ode"]
    if "log_ode" not in methods and draw(st.sampled_from([False, False, True])):
        # a state-independent diffusion returned as one stored tensor: every variant (also derivative-free Milstein, whose
        # correction vanishes) must then equal y + f h + g dW exactly, and must leave that tensor alone
        spec["gstored"] = True
        if "milstein" in methods:
            methods.append("milstein+grad_free")
    return {"kind": "exact", "spec": spec, "method": draw(st.sampled_from(methods)),
            "h": draw(st.sampled_from([0.5, 0.1, 0.013, 2.0 ** -7])), "t0": draw(st.sampled_from([0.0, 0.7, -0.3])),
            "seed": draw(st.integers(0, 2 ** 31 - 1)), "ctx": draw(st.sampled_from(list(core.GRAD_CTXS)))}


def strategy(tier):
    return st.one_of(_taylor_case(tier), _taylor_case(tier), _taylor_case(tier), _exact_case(tier))


def enumerate_cases(tier):
    """Every accepted combination once with a fixed curved, time-dependent SDE (systematic floor under the random search)."""
    for combo in sdes.accepted_combos(include_grad_free=True, all_levy=False):
        additive = combo["noise_type"] == "additive"
        g = [[0.8, "lin_t", "1"], [0.5, "cos_t", "1"]] if additive else [[0.8, "1", "cos"], [0.3, "cos_t", "y"]]
        yield {"kind": "taylor", "combo": combo, "f": [[-0.7, "1", "sin"], [0.5, "sin_t", "y"]], "g": g, "t0": 0.3,
               "y0": 0.4}
    # exact clause with a stored, state-independent diffusion: every (noise type, calculus, Euler / Milstein / derivative-free
    # Milstein) cell once
    import os
    import random
    seed = int(os.environ.get("VERIF_SEED", "1") or 1)
    idx = 0
    for nt in ("diagonal", "scalar", "additive", "general"):
        for sde_type in ("ito", "stratonovich"):
            ms = (["euler"] if sde_type == "ito" else []) + ([] if nt == "general" else ["milstein", "milstein+grad_free"])
            for method in ms:
                idx += 1
                rnd = random.Random(seed * 8009 + idx)
                spec = {"sde_type": sde_type, "noise_type": nt, "d": 2, "m": 2 if nt in ("diagonal", "additive", "general")
                        else 1, "batch": 2, "hidden": 3, "seed": rnd.randrange(2 ** 31), "tdep": True, "fscale": 1.0,
                        "gscale": 0.7, "dtype": "float64", "gstored": True}
                yield {"kind": "exact", "spec": spec, "method": method, "h": 0.1, "t0": 0.3, "seed": rnd.randrange(2 ** 31)}
    for d, m in ((2, 2), (1, 2), (3, 2), (2, 3)):
        idx += 1
        rnd = random.Random(seed * 8009 + idx)
        spec = {"sde_type": "stratonovich", "noise_type": "general", "d": d, "m": m, "batch": 2, "hidden": 3,
                "seed": rnd.randrange(2 ** 31), "tdep": True, "fscale": 1.0, "gscale": 0.7, "dtype": "float64"}
        yield {"kind": "exact", "spec": spec, "method": "log_ode", "h": 0.1, "t0": 0.3, "seed": rnd.randrange(2 ** 31),
               "ctx": core.GRAD_CTXS[idx % 3]}
    # Euler / derivative Milstein / log-ODE against their formulas in each autograd context a caller may be in (the
    # derivative-based steps differentiate the diffusion internally, whatever the surrounding context)
    for nt in ("diagonal", "scalar", "additive", "general"):
        for sde_type in ("ito", "stratonovich"):
            ms = (["euler"] if sde_type == "ito" else []) + ([] if nt == "general" else ["milstein"]) + \
                (["log_ode"] if sde_type == "stratonovich" and nt != "diagonal" else [])
            for method in ms:
                for ctx in core.GRAD_CTXS:
                    idx += 1
                    rnd = random.Random(seed * 8009 + idx)
                    spec = {"sde_type": sde_type, "noise_type": nt, "d": 2, "m": 2 if nt != "scalar" else 1, "batch": 2,
                            "hidden": 3, "seed": rnd.randrange(2 ** 31), "tdep": True, "fscale": 1.0, "gscale": 0.7,
                            "dtype": "float64"}
                    yield {"kind": "exact", "spec": spec, "method": method, "h": 0.1, "t0": 0.3,
                           "seed": rnd.randrange(2 ** 31), "ctx": ctx}


def run_case(case):
    return _run_taylor(case) if case["kind"] == "taylor" else _run_exact(case)


class SymSDE(nn.Module):
    def __init__(self, f_expr, g_expr, noise_type, sde_type):
        super().__init__()
        sp, t, y, _, _ = _sym()
        mods = [{"sin": torch.sin, "cos": torch.cos, "tanh": torch.tanh, "exp": torch.exp}]
        self._f = sp.lambdify((t, y), f_expr, modules=mods)
        self._g = sp.lambdify((t, y), g_expr, modules=mods)
        self.noise_type, self.sde_type = noise_type, sde_type

    @staticmethod
    def _val(fn, t, y):
        v = fn(t, y)
        if not torch.is_tensor(v):
            v = torch.full_like(y, float(v))
        return v + 0.0 * y

    def f(self, t, y):
        return self._val(self._f, t, y)

    def g(self, t, y):
        g = self._val(self._g, t, y)
        return g if self.noise_type == "diagonal" else g.unsqueeze(-1)


def _gauss_hermite(n):
    import numpy as np
    x, w = np.polynomial.hermite_e.hermegauss(n)
    w = w / w.sum()
    return torch.tensor(x, dtype=torch.float64), torch.tensor(w, dtype=torch.float64)


def _slope(xs, ys):
    n = len(xs)
    mx, my = sum(xs) / n, sum(ys) / n
    return sum((x - mx) * (y - my) for x, y in zip(xs, ys)) / sum((x - mx) ** 2 for x in xs)


def _run_taylor(case):
    from torchsde._core import base_sde, methods
    sp, t, y, _, _ = _sym()
    combo = case["combo"]
    fx, gx = _expr(case["f"]), _expr(case["g"])
    nt, ito = combo["noise_type"], combo["sde_type"] == "ito"
    # equivalent Ito drift
    a = fx if ito else fx + sp.Rational(1, 2) * gx * sp.diff(gx, y)
    b = gx
    L0 = lambda u: sp.diff(u, t) + a * sp.diff(u, y) + sp.Rational(1, 2) * b ** 2 * sp.diff(u, y, 2)  # noqa: E731
    L1 = lambda u: b * sp.diff(u, y)                                                                  # noqa: E731
    pt = {t: case["t0"], y: case["y0"]}
    coef = {k: float(v.subs(pt)) for k, v in
            {"a": a, "b": b, "L1b": L1(b), "L1a": L1(a), "L0b": L0(b), "L0a": L0(a), "L1L1b": L1(L1(b))}.items()}
    gp, gpp = float(sp.diff(gx, y).subs(pt)), float(sp.diff(gx, y, 2).subs(pt))
    tdep = bool(fx.has(t) or gx.has(t))
    sde = SymSDE(fx, gx, nt, combo["sde_type"])
    xi, wxi = _gauss_hermite(12)
    XI, ZE = torch.meshgrid(xi, xi, indexing="ij")
    Wt = (wxi[:, None] * wxi[None, :]).reshape(-1)
    XI, ZE = XI.reshape(-1, 1), ZE.reshape(-1, 1)
    B = XI.shape[0]
    y0 = torch.full((B, 1), case["y0"], dtype=torch.float64)
    t0 = torch.tensor(case["t0"], dtype=torch.float64)
    sig = {"sde_type": combo["sde_type"], "noise_type": nt, "method": combo["method"], "grad_free": bool(combo["options"])}
    label = f"{combo['sde_type']}/{nt}/{combo['method']}" + ("+grad_free" if combo["options"] else "")
    ks = list(range(3, 13))
    rms, mean = [], []
    p = None
    for k in ks:
        h = 2.0 ** -k
        dW = math.sqrt(h) * XI
        U = h ** 1.5 * (XI / 2 + ZE / math.sqrt(12))
        A = torch.zeros(B, 1, 1, dtype=torch.float64)
        stub = brownian_tools.make_stub((B, 1), torch.float64, combo["levy"], lambda ta, tb: (dW, U, A))
        cls = methods.select(combo["method"], combo["sde_type"])
        # the solver's nominal dt is deliberately unrelated to the step actually requested: step(t0, t1, ...) must depend
        # on t1 - t0 only (a clipped last step, an adaptive trial and a resumed solve all take steps != dt)
        solver = cls(sde=base_sde.ForwardSDE(sde), bm=stub, dt=case.get("nominal_dt", 0.37), adaptive=False, rtol=1e-3,
                     atol=1e-3, dt_min=1e-5, options=dict(combo["options"]))
        p = float(solver.strong_order)
        with torch.no_grad():
            extra = solver.init_extra_solver_state(t0, y0)
            y1, _ = solver.step(t0, t0 + h, y0, extra)
            if k == ks[0]:
                # a step is a function of (t, y, solver state, h, increments): taken again from the very same arguments it
                # returns the very same result (the arguments still belong to the caller - adaptive trials and restarts
                # consume one state several times)
                y1_again, _ = solver.step(t0, t0 + h, y0, extra)
                if not torch.equal(y1, y1_again):
                    return Result(nontrivial=True, checks=1, fail=Fail(
                        "step_not_a_function_of_its_arguments",
                        f"{label}: the same step taken twice from the same (t, y, solver state) differs by "
                        f"{float((y1 - y1_again).abs().max()):.3e}", sig))
        I11 = 0.5 * (dW ** 2 - h)
        I111 = 0.5 * (dW ** 2 / 3 - h) * dW
        T = y0 + coef["a"] * h + coef["b"] * dW + coef["L1b"] * I11 + coef["L1a"] * U + coef["L0b"] * (dW * h - U) + \
            coef["L0a"] * h * h / 2 + coef["L1L1b"] * I111
        R = (y1 - T).reshape(-1)
        if not bool(torch.isfinite(R).all()):
            return Result(nontrivial=True, checks=1, fail=Fail("non_finite_step", f"{label}: step returned non-finite "
                                                                                  f"values at h=2^-{k}", sig))
        rms.append(float(torch.sqrt((Wt * R ** 2).sum())))
        mean.append(abs(float((Wt * R).sum())))
    half = len(ks) // 2
    third = max(2, len(ks) // 3)
    lx = [-k * math.log(2) for k in ks[half:]]
    checks = 0
    fail = None
    # "as h -> 0" does not stop at the end of the ladder: for steps of 3e-8 ... 1e-11 (what an adaptive controller or a clipped
    # last step produces) the residual must keep shrinking like h^(p + 1/2 - margin) from its value at the finest ladder point,
    # down to rounding level. (Every term of the expansion is still far above rounding there: g'g dW^2 ~ h.)
    for h_nom in (5e-8, 1e-9, 1e-11):
        t1 = t0 + h_nom
        h = float(t1 - t0)
        dW = math.sqrt(h) * XI
        U = h ** 1.5 * (XI / 2 + ZE / math.sqrt(12))
        A = torch.zeros(B, 1, 1, dtype=torch.float64)
        stub = brownian_tools.make_stub((B, 1), torch.float64, combo["levy"], lambda ta, tb: (dW, U, A))
        solver = cls(sde=base_sde.ForwardSDE(sde), bm=stub, dt=case.get("nominal_dt", 0.37), adaptive=False, rtol=1e-3,
                     atol=1e-3, dt_min=1e-5, options=dict(combo["options"]))
        with torch.no_grad():
            y1, _ = solver.step(t0, t1, y0, solver.init_extra_solver_state(t0, y0))
        I11 = 0.5 * (dW ** 2 - h)
        I111 = 0.5 * (dW ** 2 / 3 - h) * dW
        T = y0 + coef["a"] * h + coef["b"] * dW + coef["L1b"] * I11 + coef["L1a"] * U + coef["L0b"] * (dW * h - U) + \
            coef["L0a"] * h * h / 2 + coef["L1L1b"] * I111
        R = (y1 - T).reshape(-1)
        r_tiny = float(torch.sqrt((Wt * R ** 2).sum())) if bool(torch.isfinite(R).all()) else float("inf")
        bound = 10.0 * rms[-1] * (h / 2.0 ** -ks[-1]) ** (p + 0.5 - 0.15) + 1e3 * 2.2e-16 * max(1.0, abs(case["y0"]))
        checks += 1
        if not r_tiny <= bound:
            fail = Fail("tiny_step",
                        f"{label}: RMS of (step - Ito-Taylor 1.5) is {r_tiny:.3e} at h={h:.3e}; it was {rms[-1]:.3e} at "
                        f"h=2^-{ks[-1]} and must shrink like h^{p + 0.35:.2f} (bound {bound:.3e}); f={fx}, g={gx}, "
                        f"(t,y)=({case['t0']},{case['y0']})", sig)
            break
    s_rms = s_mean = None

    def grows(vals, expo):
        """|v(h)| / h^expo over the finest third exceeds twice its maximum over the coarsest third: the quantity is not
        O(h^expo) on this ladder. (Second, cancellation-proof criterion: a slope fitted to |E R| is meaningless when the
        leading coefficient is small and the mean changes sign inside the ladder.)"""
        r = [v / (2.0 ** -k) ** expo for k, v in zip(ks, vals)]
        return max(r[-third:]) > 2.0 * max(r[:third])

    if fail is None and max(rms[half:]) > 1e-13:
        s_rms = _slope(lx, [math.log(max(e, 1e-300)) for e in rms[half:]])
        checks += 1
        if not s_rms >= p + 0.5 - 0.15 and grows(rms, p + 0.5 - 0.15):
            fail = Fail("local_mean_square_order",
                        f"{label}: RMS of (step - Ito-Taylor 1.5) decays like h^{s_rms:.2f}, strong order {p} needs "
                        f"h^{p + 0.5}; f={fx}, g={gx}, (t,y)=({case['t0']},{case['y0']}); RMS {['%.2e' % e for e in rms]}",
                        sig)
    if fail is None and max(mean[half:]) > 1e-13 and min(mean[half:]) > 1e-15:
        s_mean = _slope(lx, [math.log(e) for e in mean[half:]])
        checks += 1
        if not s_mean >= p + 1 - 0.2 and grows(mean, p + 1 - 0.2):
            fail = Fail("local_mean_order",
                        f"{label}: |E(step - Ito-Taylor 1.5)| decays like h^{s_mean:.2f}, strong order {p} needs "
                        f"h^{p + 1}; f={fx}, g={gx}, (t,y)=({case['t0']},{case['y0']}); means {['%.2e' % e for e in mean]}",
                        sig)
    labels = [label, "time_dependent" if tdep else "autonomous"]
    nontrivial = (nt == "additive" or (abs(gp) > 1e-3 and abs(gpp) > 1e-3)) and tdep and checks > 0
    metrics = {}
    if s_rms is not None:
        metrics["min:rms_slope_minus_required"] = s_rms - (p + 0.5)
    if s_mean is not None:
        metrics["min:mean_slope_minus_required"] = s_mean - (p + 1)
    return Result(nontrivial=nontrivial, labels=labels, checks=checks, fail=fail, metrics=metrics)


def _run_exact(case):
    from torchsde._core import base_sde, methods
    spec = case["spec"]
    sde = sdes.build_generic(spec)
    nt, ito = spec["noise_type"], spec["sde_type"] == "ito"
    B, d, m = spec["batch"], spec["d"], spec["m"]
    gen = torch.Generator().manual_seed(case["seed"])
    y0 = torch.randn(B, d, generator=gen, dtype=torch.float64)
    h = case["h"]
    dW = torch.randn(B, m, generator=gen, dtype=torch.float64) * math.sqrt(h)
    t0 = torch.tensor(case["t0"], dtype=torch.float64)
    A = torch.randn(B, m, m, generator=gen, dtype=torch.float64) * h
    A = 0.5 * (A - A.transpose(-1, -2))                    # a prescribed (antisymmetric) Levy area
    stub = brownian_tools.make_stub((B, m), torch.float64, "davie" if case["method"] == "log_ode" else "none",
                                    lambda ta, tb: (dW, None, A))
    mname = case["method"].split("+")[0]
    cls = methods.select(mname, spec["sde_type"])
    solver = cls(sde=base_sde.ForwardSDE(sde), bm=stub, dt=0.37, adaptive=False, rtol=1e-3, atol=1e-3, dt_min=1e-5,
                 options={"grad_free": True} if case["method"].endswith("+grad_free") else {})
    gbuf_before = sde.gbuf.clone()
    with core.grad_ctx(case.get("ctx")):
        # inside a solve the state and the times are tensors made in the caller's context (inference tensors under
        # torch.inference_mode): copies made here are
        ya, ta, tb = y0.clone(), t0.clone(), t0 + h
        y1, _ = solver.step(ta, tb, ya, ())
        y1b, _ = solver.step(ta, tb, ya, ())              # the same step again: a step must not change the SDE it is given
        y1, y1b = y1.detach(), y1b.detach()
    with torch.no_grad():
        f = sde.f(t0, y0)
        g = gbuf_before if spec.get("gstored") else sde.g(t0, y0)
    if spec.get("gstored") and (not torch.equal(sde.gbuf, gbuf_before) or not torch.equal(y1, y1b)):
        return Result(nontrivial=True, checks=1, fail=Fail(
            "sde_state_modified", f"{spec['sde_type']}/{nt}/{case['method']}: the step overwrote the tensor returned by the "
                                  f"SDE's g (or gave another result when repeated)",
            {"sde_type": spec["sde_type"], "noise_type": nt, "method": case["method"], "kind": "exact"}))
    G = torch.diag_embed(g) if nt == "diagonal" else g
    want = y0 + f * h + torch.einsum("bil,bl->bi", G, dW)
    if case["method"] == "log_ode":
        # midpoint log-ODE step: y' = y + f h/2 + g dW/2, then y + f' h + g' dW + sum_{k,l} (D g_l g_k)(t', y') A_kl
        from .c16 import _jac_g
        with torch.no_grad():
            tp = t0 + 0.5 * h
            yp = y0 + 0.5 * h * f + 0.5 * torch.einsum("bil,bl->bi", G, dW)
            fp, gp = sde.f(tp, yp), sde.g(tp, yp)
        Jp = _jac_g(sde, tp, yp)                                   # (B, d, m, d): d g_il / d y_j
        want = y0 + fp * h + torch.einsum("bil,bl->bi", gp, dW) + torch.einsum("bilj,bjk,bkl->bi", Jp, gp, A)
    if case["method"] == "milstein" and not spec.get("gstored"):
        from .c16 import _jac_g
        J = _jac_g(sde, t0, y0)                                    # (B, d, m, d)
        v = dW ** 2 - h if ito else dW ** 2
        want = want + 0.5 * torch.einsum("bilj,bjl,bl->bi", J, G, v)
    e = float((y1 - want).abs().max()) / max(1.0, float(want.abs().max()))
    sig = {"sde_type": spec["sde_type"], "noise_type": nt, "method": case["method"], "kind": "exact"}
    fail = None
    if not e <= 1e-12:
        fail = Fail("textbook_formula", f"{spec['sde_type']}/{nt}/{case['method']} step differs from its textbook formula "
                                        f"(explicit Jacobians) by {e:.3e} (d={d}, m={m}, h={h})", sig)
    return Result(nontrivial=d >= 2, labels=[f"exact:{spec['sde_type']}/{nt}/{case['method']}",
                                             f"exact:ctx={case.get('ctx') or 'no_grad'}"], checks=1, fail=fail,
                  metrics={"exact_clause_err": e})
