"""C16 - equivalent SDE interfaces give identical solutions; derived operators are exact."""
import torch
from hypothesis import strategies as st
from torch import nn

from .. import core, sdes, solve
from ..core import Fail, Result

ID = "C16"
RULE = ("two case kinds. (iface) generic SDE x every accepted (method, options, Levy mode) x 9 interface variants built "
        "from the same tensor operations (f,g / f_and_g / f,g_prod / f_and_g_prod / all five / f_and_g+g_prod / renamed "
        "drift+diffusion through names / renamed f_and_g through names / renamed f_and_g_prod): each outcome must be "
        "bit-identical to the (f,g) reference or an explicit 'has not been provided' RuntimeError / ValueError - never a "
        "different value. (ops) ForwardSDE.prod, g_prod_and_gdg_prod (default/diagonal/additive) and both "
        "dg_ga_jvp_column_sum implementations against explicit per-sample Jacobians (autograd.functional.jacobian + "
        "einsum): sum_j dg_il/dy_j g_jl v_l and sum_jkl dg_il/dy_j g_jk A_kl. Non-trivial (iface) = the variant differs "
        "from (f,g); (ops) = the Jacobian of g is not symmetric / not zero; distinct = distinct canonical case JSON.")
ASSUMPTIONS = ["user-supplied g_prod/f_and_g_prod are written with the same tensor ops as the library's defaults "
               "(element-wise product for diagonal, bmm otherwise), which is what 'describing the same functions' means "
               "at bit level",
               "reference derivatives come from torch.autograd.functional.jacobian, independent of the vjp/jvp helpers"]
BUDGET = {
    "quick": {"examples": 240, "shards": 4, "case_timeout": 60, "wall_budget": 240},
    "thorough": {"examples": 6000, "shards": 16, "case_timeout": 120, "wall_budget": 1800},
}
FUZZ = {"thorough": dict(runs=20000, procs=8, wall_s=600)}
TOLERANCES = {"iface": "bit-identical or explicit error", "ops": "1e-10 * scale (float64)"}
VARIANTS = ["f_and_g", "f+g_prod", "f_and_g_prod", "all", "f_and_g+g_prod", "names:f,g", "names:f_and_g",
            "names:f_and_g_prod", "f+g+f_and_g_prod", "names:shadowed", "names:drift_only", "names:missing_drift",
            "names:missing_diffusion", "names:missing_prior+logqp", "names:prior+logqp", "names:shadowed+logqp"]
# variants in which the user names a method the SDE does not have: the solver needs it, so the only acceptable outcome is
# an explicit error (the canonical-name methods present on the module describe *other* functions)
MUST_RAISE = {"names:missing_drift", "names:missing_diffusion", "names:missing_prior+logqp"}


def _prod(noise_type, g, v):
    if noise_type == "diagonal":
        return g * v
    return torch.bmm(g, v.unsqueeze(-1)).squeeze(dim=-1)


class Normed(nn.Module):
    """The SDE with a frozen normalisation layer in its drift: a BatchNorm1d in eval() mode (running statistics, no
    updates) inside a module that is itself in training mode - a fine-tuning set-up. Which mode its sub-modules are in is the
    user's business: solving must not change it (in train mode the layer would normalise with batch statistics)."""

    def __init__(self, base):
        super().__init__()
        self.base = base
        self.noise_type, self.sde_type, self.spec = base.noise_type, base.sde_type, base.spec
        d = base.spec["d"]
        self.norm = nn.BatchNorm1d(d).double()
        with torch.no_grad():
            self.norm.running_mean.copy_(torch.linspace(-0.3, 0.4, d, dtype=torch.float64))
            self.norm.running_var.copy_(torch.linspace(0.6, 1.7, d, dtype=torch.float64))
        self.norm.eval()

    def f(self, t, y):
        return self.base.f(t, self.norm(y))

    def g(self, t, y):
        return self.base.g(t, y)

    def h(self, t, y):
        return self.base.h(t, y)


def make_variant(base, variant):
    nt = base.noise_type

    class V(nn.Module):
        def __init__(self):
            super().__init__()
            self.base = base
            self.noise_type = base.noise_type
            self.sde_type = base.sde_type
            self.spec = base.spec

    v = V()
    f = lambda t, y: base.f(t, y)                                            # noqa: E731
    g = lambda t, y: base.g(t, y)                                            # noqa: E731
    f_and_g = lambda t, y: (base.f(t, y), base.g(t, y))                      # noqa: E731
    g_prod = lambda t, y, w: _prod(nt, base.g(t, y), w)                      # noqa: E731
    f_and_g_prod = lambda t, y, w: (base.f(t, y), _prod(nt, base.g(t, y), w))  # noqa: E731
    names = None
    if variant == "f,g":
        v.f, v.g = f, g
    elif variant == "f_and_g":
        v.f_and_g = f_and_g
    elif variant == "f+g_prod":
        v.f, v.g_prod = f, g_prod
    elif variant == "f_and_g_prod":
        v.f_and_g_prod = f_and_g_prod
    elif variant == "all":
        v.f, v.g, v.f_and_g, v.g_prod, v.f_and_g_prod = f, g, f_and_g, g_prod, f_and_g_prod
    elif variant == "f_and_g+g_prod":
        v.f_and_g, v.g_prod = f_and_g, g_prod
    elif variant == "f+g+f_and_g_prod":
        v.f, v.g, v.f_and_g_prod = f, g, f_and_g_prod
    elif variant == "names:f,g":
        v.mu, v.sigma = f, g
        names = {"drift": "mu", "diffusion": "sigma"}
    elif variant == "names:shadowed":
        # canonical names exist too but describe different functions: the renamed ones must be used
        v.f = lambda t, y: -3.0 * y                                           # noqa: E731
        v.g = lambda t, y: 0.5 * base.g(t, y) + 0.1                           # noqa: E731
        v.mu, v.sigma = f, g
        names = {"drift": "mu", "diffusion": "sigma"}
    elif variant == "names:shadowed+logqp":
        v.f = lambda t, y: -3.0 * y                                           # noqa: E731
        v.g = lambda t, y: 0.5 * base.g(t, y) + 0.1                           # noqa: E731
        v.h = lambda t, y: base.h(t, y)                                       # noqa: E731
        v.mu, v.sigma = f, g
        names = {"drift": "mu", "diffusion": "sigma"}
    elif variant == "names:drift_only":
        v.f = lambda t, y: -3.0 * y                                           # noqa: E731
        v.mu, v.g = f, g
        names = {"drift": "mu"}
    elif variant == "names:missing_drift":
        v.f, v.g = (lambda t, y: -3.0 * y), g
        names = {"drift": "no_such_method"}
    elif variant == "names:missing_diffusion":
        v.f, v.g = f, (lambda t, y: 0.5 * base.g(t, y) + 0.1)
        names = {"diffusion": "no_such_method"}
    elif variant == "names:missing_prior+logqp":
        v.f, v.g, v.h = f, g, (lambda t, y: base.h(t, y))
        names = {"prior_drift": "no_such_method"}
    elif variant == "names:prior+logqp":
        v.f, v.g, v.h = f, g, (lambda t, y: -3.0 * y)
        v.prior = lambda t, y: base.h(t, y)                                   # noqa: E731
        names = {"prior_drift": "prior"}
    elif variant == "names:f_and_g":
        v.mu_sigma = f_and_g
        names = {"drift_and_diffusion": "mu_sigma"}
    elif variant == "names:f_and_g_prod":
        v.mu_sigma_prod = f_and_g_prod
        names = {"drift_and_diffusion_prod": "mu_sigma_prod"}
    else:
        raise ValueError(variant)
    return v, names


@st.composite
def _iface_case(draw, tier):
    spec, combo = draw(solve.spec_and_combo())
    if spec["noise_type"] in ("general", "additive"):
        # wider diffusion matrices too: a matrix-vector product computed by another kernel than torch.bmm first differs
        # in the last bits from five columns on
        spec["m"] = draw(st.sampled_from([spec["m"], spec["m"], 5, 6, 7]))
    tset = draw(solve.time_setup(max_steps=6))
    return {"kind": "iface", "spec": spec, "combo": combo, "time": tset, "variant": draw(st.sampled_from(VARIANTS)),
            "entropy": draw(st.integers(0, 2 ** 31 - 2)), "frozen_norm": draw(st.sampled_from([False, False, True])),
            # `method` left out: the documented default for the declared calculus / noise type is used - for every spelling
            # of the coefficients (same solution, or the same explicit refusal)
            "default_method": draw(st.sampled_from([False, False, False, True]))}


@st.composite
def _ops_case(draw, tier):
    spec = draw(sdes.generic_specs(max_d=4, max_m=3))
    return {"kind": "ops", "spec": spec, "seed": draw(st.integers(0, 2 ** 31 - 1)),
            "t": draw(st.sampled_from([0.0, 0.3, 1.7, -0.4])), "ctx": draw(st.sampled_from(list(core.GRAD_CTXS)))}


def strategy(tier):
    return st.one_of(_iface_case(tier), _iface_case(tier), _ops_case(tier))


def enumerate_cases(tier):
    """Every accepted (sde_type, noise_type, method, options, Levy mode) cell x every interface variant, on a
    time-dependent SDE (so that an operator evaluated at the wrong time cannot hide)."""
    import os
    import random
    seed = int(os.environ.get("VERIF_SEED", "1") or 1)
    for idx, combo in enumerate(sdes.accepted_combos(include_grad_free=True, all_levy=False)):
        rnd = random.Random(seed * 4001 + idx)
        nt = combo["noise_type"]
        wide = nt in ("general", "additive") and idx % 2 == 1
        spec = {"sde_type": combo["sde_type"], "noise_type": nt, "d": 2, "m": 1 if nt == "scalar" else (6 if wide else 2),
                "batch": 2,
                "hidden": 3, "seed": rnd.randrange(2 ** 31), "tdep": True, "fscale": 1.0, "gscale": 0.7,
                "dtype": "float64"}
        for variant in VARIANTS:
            yield {"kind": "iface", "spec": spec, "combo": combo, "variant": variant, "entropy": rnd.randrange(2 ** 31 - 2),
                   "time": {"t0": 0.2, "t1": 0.2 + 3 * 0.25, "dt": 0.25, "tdtype": "float64"},
                   "frozen_norm": rnd.random() < 0.4, "default_method": rnd.random() < 0.25}
    # derived operators: every noise type (both calculi share them) in every autograd context a caller may be in
    idx = 0
    for nt in sdes.NOISE_TYPES:
        for ctx in core.GRAD_CTXS:
            idx += 1
            rnd = random.Random(seed * 4003 + idx)
            spec = {"sde_type": "stratonovich", "noise_type": nt, "d": 3, "m": 1 if nt == "scalar" else 3, "batch": 2,
                    "hidden": 3, "seed": rnd.randrange(2 ** 31), "tdep": True, "fscale": 1.0, "gscale": 0.7,
                    "dtype": "float64"}
            yield {"kind": "ops", "spec": spec, "seed": rnd.randrange(2 ** 31), "t": 0.3, "ctx": ctx}


def run_case(case):
    return _run_iface(case) if case["kind"] == "iface" else _run_ops(case)


def _run_iface(case):
    import torchsde
    spec, combo, tm = case["spec"], case["combo"], case["time"]
    base = sdes.build_generic(spec)
    normed = None
    if case.get("frozen_norm") and spec.get("dtype", "float64") == "float64":
        base = normed = Normed(base)
    y0 = sdes.y0_for(spec)
    ts = torch.tensor([tm["t0"], 0.5 * (tm["t0"] + tm["t1"]), tm["t1"]], dtype=torch.float64)
    sig = {"variant": case["variant"], "method": combo["method"], "noise_type": spec["noise_type"],
           "sde_type": spec["sde_type"]}

    logqp = case["variant"].endswith("+logqp")
    if logqp and (spec["noise_type"] == "diagonal" or combo["method"] == "reversible_heun"):
        # the logqp augmentation changes the channel count for diagonal noise / is exercised by C18; keep the Brownian shapes
        # of this check simple
        return Result(labels=[f"variant={case['variant']}", "skipped:logqp_shape"])

    reuse = {"bad": None}
    dflt = bool(case.get("default_method")) and not logqp
    mth = None if dflt else combo["method"]
    # the default Ito solver for diagonal / additive / scalar noise (srk) needs a space-time Levy area from the Brownian motion
    levy_ = "space-time" if (dflt and spec["sde_type"] == "ito" and spec["noise_type"] != "general") else combo["levy"]
    opts_ = None if dflt else (dict(combo["options"]) or None)

    def go(variant):
        sde, names = make_variant(base, variant)
        if variant == "f,g" and logqp:
            sde.h = lambda t, y: base.h(t, y)                                 # noqa: E731
        names_before = dict(names) if names is not None else None
        outs = []
        if names is not None and all(hasattr(sde, v_) for v_ in names.values()) and not logqp:
            # the same SDE object was solved before with the same keys renamed to OTHER methods (e.g. a prior sample through
            # names={'drift': 'h'} before the posterior one): each call must use the methods named in that call
            for key_, meth in names.items():
                orig = getattr(sde, meth)
                if key_ in ("drift", "diffusion", "prior_drift"):
                    setattr(sde, meth + "_other", lambda t, y, o=orig: 0.5 * o(t, y) + 0.1)
                elif key_ == "drift_and_diffusion":
                    setattr(sde, meth + "_other", lambda t, y, o=orig: tuple(0.5 * x + 0.1 for x in o(t, y)))
                else:
                    setattr(sde, meth + "_other", lambda t, y, w, o=orig: tuple(0.5 * x + 0.1 for x in o(t, y, w)))
            with torch.no_grad():
                torchsde.sdeint(sde, y0, ts, method=mth, dt=tm["dt"], options=opts_,
                                bm=sdes.make_bm(torchsde, spec, ts[0], ts[-1], case["entropy"], levy=levy_),
                                names={k_: v_ + "_other" for k_, v_ in names.items()})
        # the caller's `names` dict is an input: the same object is passed to two consecutive solves and must neither be
        # modified nor lose its effect
        for _rep in range(2 if names is not None else 1):
            bm = sdes.make_bm(torchsde, spec, ts[0], ts[-1], case["entropy"], levy=levy_)
            with torch.no_grad():
                out = torchsde.sdeint(sde, y0, ts, bm=bm, method=mth, dt=tm["dt"],
                                      options=opts_, names=names, logqp=logqp)
            outs.append(torch.cat([out[0].reshape(-1), out[1].reshape(-1)]) if logqp else out)
        if names is not None and (names != names_before or not torch.equal(outs[0], outs[1])):
            reuse["bad"] = (names_before, dict(names), float((outs[0] - outs[1]).abs().max()))
        return outs[0]

    ref = go("f,g")
    labels = [f"variant={case['variant']}", solve.combo_label(combo)] + (["method_left_at_default"] if dflt else [])
    try:
        got = go(case["variant"])
    except (RuntimeError, ValueError, AttributeError) as e:
        msg = str(e)
        explicit = ("has not been provided" in msg) or ("must define" in msg) or ("Cannot infer noise size" in msg) \
            or ("must all be specified" in msg)
        if not explicit or (isinstance(e, AttributeError) and case["variant"] not in MUST_RAISE):
            # the same functions solved fine through (f, g): an interface variant may be refused with the explicit
            # "has not been provided" error, but it must not fail in some other way (e.g. a shape error because a derived
            # method was wired to the wrong function)
            return Result(nontrivial=True, checks=1, fail=Fail(
                "interface_unexpected_error", f"variant {case['variant']} with {solve.combo_label(combo)} raised "
                                              f"{type(e).__name__}: {str(e)[:160]} although the (f,g) interface solves",
                sig))
        labels.append("outcome=explicit_error")
        return Result(nontrivial=True, labels=labels, checks=1)
    if normed is not None:
        labels.append("frozen_batchnorm_submodule")
        if normed.norm.training or not normed.training:
            return Result(nontrivial=True, checks=1, fail=Fail(
                "sde_module_mode_changed", f"solving through variant {case['variant']} changed the train/eval mode of the user's "
                                           f"modules (frozen BatchNorm1d now training={normed.norm.training}, its parent "
                                           f"training={normed.training})", sig))
    if reuse["bad"] is not None:
        nb, na, d = reuse["bad"]
        return Result(nontrivial=True, checks=1, fail=Fail(
            "names_dict_reuse", f"passing the same names dict {nb} to two consecutive solves: dict afterwards {na}, results "
                                f"differ by {d:.3e} ({solve.combo_label(combo)})", sig))
    if case["variant"] in MUST_RAISE:
        same = torch.equal(ref, got)
        return Result(nontrivial=True, checks=1, fail=Fail(
            "misnamed_method_not_rejected", f"names points at a method the SDE does not have ({case['variant']}), yet sdeint "
            f"returned a solution ({'equal to' if same else 'different from'} the reference) instead of an explicit error "
            f"with {solve.combo_label(combo)}", sig))
    if not torch.equal(ref, got):
        d = float((ref - got).abs().max())
        return Result(nontrivial=True, checks=1, fail=Fail(
            "interface_changes_solution", f"variant {case['variant']} gives a different solution than (f,g) with "
                                          f"{solve.combo_label(combo)}: max diff {d:.3e}", sig))
    labels.append("outcome=identical")
    return Result(nontrivial=True, labels=labels, checks=1)


def _jac_g(sde, t, y):
    """Per-sample Jacobian dg[b, i, l] / dy[b, j] -> (B, d, m, d) (diagonal: m = d, g embedded as g_i delta_il)."""
    outs = []
    for b in range(y.shape[0]):
        yb = y[b:b + 1]

        def gb(x):
            g = sde.g(t, x)
            if sde.noise_type == "diagonal":
                g = torch.diag_embed(g)
            return g[0]
        outs.append(torch.autograd.functional.jacobian(gb, yb)[:, :, 0, :])
    return torch.stack(outs)


def _run_ops(case):
    from torchsde._core import base_sde
    spec = case["spec"]
    sde = sdes.build_generic(spec)
    nt = spec["noise_type"]
    B, d, m = spec["batch"], spec["d"], spec["m"]
    gen = torch.Generator().manual_seed(case["seed"])
    y = torch.randn(B, d, generator=gen, dtype=torch.float64)
    v1 = torch.randn(B, m, generator=gen, dtype=torch.float64)
    v2 = torch.randn(B, m, generator=gen, dtype=torch.float64)
    A = torch.randn(B, m, m, generator=gen, dtype=torch.float64)
    A = A - A.transpose(1, 2)
    t = torch.tensor(case["t"], dtype=torch.float64)
    sig = {"noise_type": nt, "kind": "ops"}
    checks = 0
    with torch.no_grad():
        g = sde.g(t, y)
    G = torch.diag_embed(g) if nt == "diagonal" else g            # (B, d, m)
    J = _jac_g(sde, t, y)                                          # (B, d, m, d)
    fwd = base_sde.ForwardSDE(sde)
    fwd_fast = base_sde.ForwardSDE(sde, fast_dg_ga_jvp_column_sum=True)
    ctx_name = case.get("ctx") or ("grad" if case.get("grad_enabled") else "no_grad")
    ctx = core.grad_ctx(ctx_name)
    scale = max(1.0, float(J.abs().max()) * float(G.abs().max()))
    worst = {}

    def cmp(name, got, want, clause):
        nonlocal checks
        checks += 1
        if isinstance(got, float):
            got = torch.full_like(want, got)
        e = float((got.detach() - want).abs().max()) / scale
        worst[name] = max(worst.get(name, 0.0), e)
        if not e <= 1e-10:
            return Result(nontrivial=True, checks=checks, metrics=worst, fail=Fail(
                clause, f"{name} differs from its definition for {nt} noise (d={d}, m={m}): rel {e:.3e}", sig))
        return None

    with ctx:
        # what a solver hands over are tensors made in the caller's context (inference tensors under torch.inference_mode)
        y, v1, v2, A, t, g = y.clone(), v1.clone(), v2.clone(), A.clone(), t.clone(), g.clone()
        # diffusion-vector product
        want = torch.einsum("bil,bl->bi", G, v1)
        r = cmp("prod", fwd.prod(g, v1), want, "operator:prod") or \
            cmp("g_prod", fwd.g_prod(t, y, v1), want, "operator:g_prod")
        if r:
            return r
        # Milstein term: sum_{j,l} dg_il/dy_j g_jl v2_l
        gp, gdg = fwd.g_prod_and_gdg_prod(t, y, v1, v2)
        want_gdg = torch.einsum("bilj,bjl,bl->bi", J, G, v2)
        r = cmp("g_prod(in g_prod_and_gdg_prod)", gp, want, "operator:g_prod") or \
            cmp("gdg_prod", gdg, want_gdg, "operator:gdg_prod")
        if r:
            return r
        # Levy-area Jacobian term: sum_{j,k,l} dg_il/dy_j g_jk A_kl
        want_ga = torch.einsum("bilj,bjk,bkl->bi", J, G, A)
        if nt == "general":
            r = cmp("dg_ga_jvp_column_sum_v1", fwd.dg_ga_jvp_column_sum(t, y, A), want_ga, "operator:dg_ga_jvp_v1") or \
                cmp("dg_ga_jvp_column_sum_v2", fwd_fast.dg_ga_jvp_column_sum(t, y, A), want_ga,
                    "operator:dg_ga_jvp_v2")
            if r:
                return r
        else:
            # commutative special cases: the library returns 0; the definition must vanish as well
            out = fwd.dg_ga_jvp_column_sum(t, y, A)
            if nt in ("diagonal", "scalar", "additive"):
                checks += 1
                zero_def = float(want_ga.abs().max()) / scale
                if isinstance(out, float) and out == 0.0 and zero_def > 1e-10 and nt != "scalar":
                    pass  # not claimed by the property for non-commutative special structure
    # symmetric-Jacobian detector (for non-triviality): sum_j J[b,i,l,j] G[b,j,l] vs sum_j J[b,j,l,i] G[b,j,l]
    asym = float((torch.einsum("bilj,bjl->bil", J, G) - torch.einsum("bjli,bjl->bil", J, G)).abs().max())
    labels = ["kind=ops", f"noise={nt}", f"ops:ctx={ctx_name}"]
    if asym > 1e-6:
        labels.append("nonsymmetric_jacobian")
    nontrivial = (asym > 1e-6) if nt in ("scalar", "general") else float(J.abs().max()) > 0 or nt == "additive"
    return Result(nontrivial=nontrivial, labels=labels, checks=checks, metrics={f"relerr/{k}": v for k, v in worst.items()})
