"""C19 - unsupported combinations and malformed inputs are rejected up-front."""
import itertools

import torch
from hypothesis import strategies as st
from torch import nn

from .. import brownian_tools, sdes
from ..core import Fail, Result

ID = "C19"
RULE = ("exhaustive enumeration (every run, both tiers) of the finite product sde_type x noise_type x method (9 known + "
        "unknown + omitted) x grad_free x Levy mode x {bm given, bm None} x adaptive x logqp for sdeint (5632 cells, plus the 1408 general/additive cells again with a single Brownian channel), of "
        "accepted forward combination x adjoint_method (9 + unknown + omitted) x adjoint grad_free for sdeint_adjoint, "
        "and of a list of malformed-argument classes; thorough adds Hypothesis-generated malformed arguments. Oracle = "
        "a table written from DOCUMENTATION.md and the solver docstrings (vp/sdes.py), not from the dispatch code: "
        "accepted cells integrate and return finite values; every other forward cell raises ValueError with zero "
        "Brownian queries; an unsupported adjoint method raises when .backward() starts (forward succeeds); omitted "
        "method / adjoint_method is bit-identical to passing the documented default; malformed arguments raise "
        "ValueError. Non-trivial = every rejected cell, every default cell and every malformed class (accepted cells are "
        "the control group); distinct = distinct cell.")
ASSUMPTIONS = ["the accepted-combination table is transcribed from the documentation; 'refused with an error' on the "
               "backward pass accepts any exception type, forward rejections must be ValueError"]
BUDGET = {
    "quick": {"examples": 0, "shards": 8, "case_timeout": 60, "wall_budget": 280},
    "thorough": {"examples": 1600, "shards": 16, "case_timeout": 60, "wall_budget": 1200},
}
FUZZ = {"thorough": dict(runs=20000, procs=8, wall_s=600)}
EXHAUSTIVE = True
TOLERANCES = {"defaults": "bit-identical"}
MIN_NONTRIVIAL = 1000

KNOWN_METHODS = ["euler", "milstein", "srk", "midpoint", "reversible_heun", "adjoint_reversible_heun", "heun", "log_ode",
                 "euler_heun"]
LEVIES = ["none", "space-time", "davie", "foster"]
DEFAULT_METHOD = {("ito", "diagonal"): "srk", ("ito", "additive"): "srk", ("ito", "scalar"): "srk",
                  ("ito", "general"): "euler"}
DEFAULT_ADJOINT = {("ito", "diagonal"): "milstein", ("ito", "additive"): "euler", ("ito", "scalar"): "euler",
                   ("ito", "general"): "euler"}
ADJOINT_NOISE = {"general": "general", "additive": "general", "scalar": "scalar", "diagonal": "diagonal"}


def default_method(sde_type, noise_type):
    return "midpoint" if sde_type == "stratonovich" else DEFAULT_METHOD[(sde_type, noise_type)]


def default_adjoint(sde_type, noise_type, method):
    if method == "reversible_heun":
        return "adjoint_reversible_heun"
    return "midpoint" if sde_type == "stratonovich" else DEFAULT_ADJOINT[(sde_type, noise_type)]


def forward_expected(sde_type, noise_type, method, levy_given):
    """'ok' or 'ValueError' for a forward cell (levy_given None = default Brownian motion)."""
    m = method if method is not None else default_method(sde_type, noise_type)
    if m not in KNOWN_METHODS or m == "adjoint_reversible_heun":
        return "ValueError"
    table = sdes.ITO_METHODS if sde_type == "ito" else sdes.STRAT_METHODS
    if m not in table or noise_type not in table[m]:
        return "ValueError"
    if levy_given is not None and m in sdes.LEVY_NEEDED and levy_given not in sdes.LEVY_NEEDED[m]:
        return "ValueError"
    return "ok"


def adjoint_expected(sde_type, noise_type, method, adjoint_method, adj_grad_free):
    """'ok' or 'error' for the backward pass of an accepted forward combination."""
    am = adjoint_method if adjoint_method is not None else default_adjoint(sde_type, noise_type, method)
    if am not in KNOWN_METHODS:
        return "error"
    if am == "adjoint_reversible_heun":
        return "ok" if method == "reversible_heun" else "error"
    if am in ("srk", "log_ode", "reversible_heun"):
        return "error"
    table = sdes.ITO_METHODS if sde_type == "ito" else sdes.STRAT_METHODS
    an = ADJOINT_NOISE[noise_type]
    if am not in table or an not in table[am]:
        return "error"
    if am == "milstein":
        if an != "diagonal" or adj_grad_free:
            return "error"
    return "ok"


class Tiny(nn.Module):
    def __init__(self, sde_type, noise_type, d=2, m=2, with_h=True):
        super().__init__()
        self.sde_type, self.noise_type = sde_type, noise_type
        self.d = d
        self.m = d if noise_type == "diagonal" else (1 if noise_type == "scalar" else m)
        self.a = nn.Parameter(torch.tensor(0.3, dtype=torch.float64))
        self.b = nn.Parameter(torch.tensor(0.2, dtype=torch.float64))
        if not with_h:
            self.h = None

    def f(self, t, y):
        return -self.a * y + torch.sin(t)

    def h(self, t, y):
        return -0.1 * y

    def g(self, t, y):
        if self.noise_type == "diagonal":
            return self.b * (1.0 + 0.1 * torch.cos(y))
        if self.noise_type == "additive":
            return (self.b * torch.ones(y.size(0), self.d, self.m, dtype=y.dtype)) * (1 + t)
        base = self.b * (1.0 + 0.1 * torch.cos(y))
        return base.unsqueeze(-1) * torch.linspace(1.0, 1.5, self.m, dtype=y.dtype)


def _forward_cells():
    for sde_type, noise_type in itertools.product(sdes.SDE_TYPES, sdes.NOISE_TYPES):
        for method in KNOWN_METHODS + ["rk4", None]:
            for grad_free, levy, bm_given, adaptive, logqp in itertools.product(
                    (False, True), LEVIES, (True, False), (False, True), (False, True)):
                yield {"kind": "forward", "sde_type": sde_type, "noise_type": noise_type, "method": method,
                       "grad_free": grad_free, "levy": levy, "bm_given": bm_given, "adaptive": adaptive, "logqp": logqp}
                if bm_given and not adaptive and not logqp:
                    # the same cell entered through sdeint_adjoint (its forward pass builds its own solver): the documented
                    # combinations and the up-front ValueError are the same for both entry points
                    yield {"kind": "forward", "sde_type": sde_type, "noise_type": noise_type, "method": method,
                           "grad_free": grad_free, "levy": levy, "bm_given": bm_given, "adaptive": adaptive,
                           "logqp": logqp, "api": "sdeint_adjoint"}
                if noise_type in ("general", "additive") and not logqp:
                    # the same cell with a single Brownian channel: "general" stays general when m == 1
                    yield {"kind": "forward", "sde_type": sde_type, "noise_type": noise_type, "method": method,
                           "grad_free": grad_free, "levy": levy, "bm_given": bm_given, "adaptive": adaptive,
                           "logqp": logqp, "m": 1}


def _adjoint_cells():
    for c in sdes.accepted_combos(include_grad_free=True, all_levy=False):
        if c["method"] == "log_ode" and c["levy"] != "davie":
            continue
        for am in KNOWN_METHODS + ["rk4", None]:
            for agf in (False, True):
                yield {"kind": "adjoint", "sde_type": c["sde_type"], "noise_type": c["noise_type"],
                       "method": c["method"], "grad_free": bool(c["options"].get("grad_free")),
                       "adjoint_method": am, "adjoint_grad_free": agf}


def _default_cells():
    for sde_type, noise_type in itertools.product(sdes.SDE_TYPES, sdes.NOISE_TYPES):
        yield {"kind": "default_method", "sde_type": sde_type, "noise_type": noise_type}
        if noise_type == "additive" or sde_type == "stratonovich":
            # the SDE given through the documented specialised methods only (f + g_prod / f_and_g_prod, no g): the documented
            # default must still be what runs (Ito additive: srk, whose additive step needs no g; Stratonovich: midpoint)
            for iface in ("f+g_prod", "f_and_g_prod"):
                yield {"kind": "default_method", "sde_type": sde_type, "noise_type": noise_type, "iface": iface}
        table = sdes.ITO_METHODS if sde_type == "ito" else sdes.STRAT_METHODS
        for method in table:
            if noise_type in table[method]:
                yield {"kind": "default_adjoint", "sde_type": sde_type, "noise_type": noise_type, "method": method}


MALFORMED = ["ts_equal", "ts_decreasing", "ts_strings", "ts_single_repeat", "y0_1d", "y0_3d", "y0_not_tensor",
             "bm_batch_mismatch", "bm_noise_mismatch", "bm_1d", "f_batch_mismatch", "f_state_mismatch",
             "g_state_mismatch", "g_batch_mismatch", "g_wrong_rank", "scalar_many_channels", "missing_f", "missing_g",
             "missing_both", "ts_requires_grad", "dt_requires_grad", "rtol_requires_grad", "atol_requires_grad",
             "dt_min_requires_grad", "no_noise_type", "no_sde_type", "bad_noise_type", "bad_sde_type", "unknown_method",
             "g_prod_without_bm", "ts_collapse_in_dtype", "scalar_many_channels_bm", "names_missing_drift",
             "names_missing_diffusion", "fgprod_drift_mismatch", "fg_drift_mismatch"]


def _malformed_cells():
    for cls in MALFORMED:
        for sde_type, noise_type in itertools.product(sdes.SDE_TYPES, sdes.NOISE_TYPES):
            for api in ("sdeint", "sdeint_adjoint"):
                for variant in ((0, 1, 2, 3, 4, 5) if cls == "scalar_many_channels_bm" else (0,)):
                    yield {"kind": "malformed", "cls": cls, "sde_type": sde_type, "noise_type": noise_type, "api": api,
                           "variant": variant}


def enumerate_cases(tier):
    return itertools.chain(_forward_cells(), _adjoint_cells(), _default_cells(), _malformed_cells())


@st.composite
def _malformed_random(draw):
    return {"kind": "malformed", "cls": draw(st.sampled_from(MALFORMED)),
            "sde_type": draw(st.sampled_from(sdes.SDE_TYPES)), "noise_type": draw(st.sampled_from(sdes.NOISE_TYPES)),
            "api": draw(st.sampled_from(["sdeint", "sdeint_adjoint"])), "variant": draw(st.integers(1, 10 ** 6)),
            "method": draw(st.sampled_from([None, "euler", "midpoint", "srk", "heun"]))}


def strategy(tier):
    return _malformed_random()


def run_case(case):
    return {"forward": _run_forward, "adjoint": _run_adjoint, "default_method": _run_default_method,
            "default_adjoint": _run_default_adjoint, "malformed": _run_malformed}[case["kind"]](case)


TS = [0.0, 0.1, 0.2]


def _setup(case, d=2, m=2, batch=2, with_h=True):
    sde = Tiny(case["sde_type"], case["noise_type"], d=d, m=m, with_h=with_h)
    y0 = torch.full((batch, d), 0.5, dtype=torch.float64)
    ts = torch.tensor(TS, dtype=torch.float64)
    return sde, y0, ts


def _run_forward(case):
    import torchsde
    sde, y0, ts = _setup(case, m=case.get("m", 2))
    want = forward_expected(case["sde_type"], case["noise_type"], case["method"],
                            case["levy"] if case["bm_given"] else None)
    kw = dict(method=case["method"], dt=0.1, adaptive=case["adaptive"], logqp=case["logqp"], dt_min=0.02)
    if case["grad_free"]:
        kw["options"] = {"grad_free": True}
    sig = {k: case[k] for k in ("sde_type", "noise_type", "method", "levy", "bm_given", "adaptive", "logqp",
                                "grad_free")}
    sig["m"] = sde.m
    sig["api"] = case.get("api", "sdeint")
    with brownian_tools.node_budget(10 ** 7) as counter:
        if case["bm_given"]:
            # with logqp the state gains one channel; for diagonal noise the Brownian motion must match it
            m_bm = sde.m + 1 if (case["logqp"] and case["noise_type"] == "diagonal") else sde.m
            kw["bm"] = torchsde.BrownianInterval(t0=0.0, t1=0.2, size=(2, m_bm), dtype=torch.float64, entropy=7,
                                                 levy_area_approximation=case["levy"])
        counter["calls"] = 0
        try:
            with torch.no_grad():
                out = getattr(torchsde, case.get("api", "sdeint"))(sde, y0, ts, **kw)
            got = "ok"
        except ValueError:
            got = "ValueError"
        except Exception as e:  # noqa
            got = f"{type(e).__name__}: {str(e)[:120]}"
        calls = counter["calls"]
    label = f"forward:{want}"
    if got != want:
        return Result(nontrivial=True, checks=1, labels=[label], fail=Fail(
            f"forward:{'accepted_but_unsupported' if got == 'ok' else 'wrong_outcome'}",
            f"sdeint cell {sig}: documented outcome {want}, observed {got}", sig))
    if want == "ValueError" and calls != 0:
        return Result(nontrivial=True, checks=1, labels=[label], fail=Fail(
            "forward:rejected_after_integration_started", f"cell {sig} raised ValueError only after {calls} Brownian "
                                                          f"queries", sig))
    if want == "ok":
        ys = out[0] if isinstance(out, tuple) else out
        if not bool(torch.isfinite(ys).all()) or tuple(ys.shape) != (3, 2, 2):
            return Result(nontrivial=True, checks=1, labels=[label], fail=Fail(
                "forward:accepted_cell_bad_output", f"cell {sig}: output shape {tuple(ys.shape)} / non-finite", sig))
        if case["logqp"] and (tuple(out[1].shape) != (2, 2)):
            return Result(nontrivial=True, checks=1, labels=[label], fail=Fail(
                "forward:accepted_cell_bad_output", f"cell {sig}: logqp output shape {tuple(out[1].shape)}", sig))
    return Result(nontrivial=want != "ok", checks=1, labels=[label])


def _run_adjoint(case):
    import torchsde
    sde, y0, ts = _setup(case)
    y0 = y0.clone().requires_grad_(True)
    want = adjoint_expected(case["sde_type"], case["noise_type"], case["method"], case["adjoint_method"],
                            case["adjoint_grad_free"])
    kw = dict(method=case["method"], adjoint_method=case["adjoint_method"], dt=0.1)
    if case["grad_free"]:
        kw["options"] = {"grad_free": True}
    if case["adjoint_grad_free"]:
        kw["adjoint_options"] = {"grad_free": True}
    sig = {k: case[k] for k in ("sde_type", "noise_type", "method", "adjoint_method", "adjoint_grad_free")}
    try:
        ys = torchsde.sdeint_adjoint(sde, y0, ts, **kw)
    except Exception as e:  # noqa
        return Result(nontrivial=True, checks=1, fail=Fail(
            "adjoint:forward_pass_failed", f"cell {sig}: the forward pass of sdeint_adjoint raised "
                                           f"{type(e).__name__}: {str(e)[:120]}", sig))
    try:
        ys.sum().backward()
        got = "ok"
    except Exception as e:  # noqa
        got = "error"
        err = f"{type(e).__name__}: {str(e)[:100]}"
    label = f"adjoint:{want}"
    if got != want:
        detail = "" if got == "ok" else f" ({err})"
        return Result(nontrivial=True, checks=1, labels=[label], fail=Fail(
            f"adjoint:{'unsupported_silently_integrated' if got == 'ok' else 'supported_but_refused'}",
            f"cell {sig}: expected backward {want}, observed {got}{detail}", sig))
    if want == "ok":
        grads = [y0.grad, sde.a.grad, sde.b.grad]
        if any(gr is None or not bool(torch.isfinite(gr).all()) for gr in grads):
            return Result(nontrivial=True, checks=1, labels=[label], fail=Fail(
                "adjoint:accepted_cell_bad_gradient", f"cell {sig}: missing or non-finite gradient", sig))
    return Result(nontrivial=want != "ok", checks=1, labels=[label])


def _run_default_method(case):
    import torchsde
    sde, y0, ts = _setup(case)
    if case.get("iface"):
        base = sde

        class Iface(nn.Module):
            noise_type, sde_type = base.noise_type, base.sde_type
        p = Iface()
        gp = (lambda t, y, w: base.g(t, y) * w) if base.noise_type == "diagonal" else \
            (lambda t, y, w: torch.bmm(base.g(t, y), w.unsqueeze(-1)).squeeze(-1))
        if case["iface"] == "f+g_prod":
            p.f, p.g_prod = base.f, gp
        else:
            p.f_and_g_prod = lambda t, y, w: (base.f(t, y), gp(t, y, w))      # noqa: E731
        p.m = base.m
        sde = p
    dm = default_method(case["sde_type"], case["noise_type"])
    outs = []
    for method in (None, dm):
        levy = "space-time" if dm == "srk" else "none"
        bm = torchsde.BrownianInterval(t0=0.0, t1=0.2, size=(2, sde.m), dtype=torch.float64, entropy=11,
                                       levy_area_approximation=levy)
        try:
            with torch.no_grad():
                outs.append(torchsde.sdeint(sde, y0, ts, bm=bm, method=method, dt=0.05))
        except (RuntimeError, ValueError) as e:
            if not case.get("iface") or "has not been provided" not in str(e):
                raise
            # a specialised interface may lack a method the default solver needs: then omitting `method` must fail with the
            # very same explicit error as naming the default
            outs.append(f"{type(e).__name__}: {e}")
    sig = {"sde_type": case["sde_type"], "noise_type": case["noise_type"]}
    same = (outs[0] == outs[1]) if isinstance(outs[0], str) or isinstance(outs[1], str) else torch.equal(outs[0], outs[1])
    if not same:
        return Result(nontrivial=True, checks=1, fail=Fail(
            "default_method", f"omitting method differs from method={dm!r} for {sig} (interface {case.get('iface', 'f,g')})",
            sig))
    # and it must differ from some other accepted method (so that the comparison is not vacuous)
    return Result(nontrivial=True, checks=1, labels=["default_method"])


def _run_default_adjoint(case):
    import torchsde
    da = default_adjoint(case["sde_type"], case["noise_type"], case["method"])
    grads = []
    for am in (None, da):
        sde, y0, ts = _setup(case)
        y0 = y0.clone().requires_grad_(True)
        levy = "space-time" if case["method"] == "srk" else ("davie" if case["method"] == "log_ode" else "none")
        bm = torchsde.BrownianInterval(t0=0.0, t1=0.2, size=(2, sde.m), dtype=torch.float64, entropy=13,
                                       levy_area_approximation=levy)
        ys = torchsde.sdeint_adjoint(sde, y0, ts, bm=bm, method=case["method"], adjoint_method=am, dt=0.05)
        (ys * torch.linspace(0.5, 1.5, ys.numel(), dtype=ys.dtype).reshape(ys.shape)).sum().backward()
        grads.append((y0.grad.clone(), sde.a.grad.clone(), sde.b.grad.clone()))
    sig = {"sde_type": case["sde_type"], "noise_type": case["noise_type"], "method": case["method"]}
    if not all(torch.equal(p, q) for p, q in zip(*grads)):
        return Result(nontrivial=True, checks=1, fail=Fail(
            "default_adjoint_method", f"omitting adjoint_method differs from adjoint_method={da!r} for {sig}", sig))
    return Result(nontrivial=True, checks=1, labels=["default_adjoint"])


def _run_malformed(case):
    import torchsde
    cls = case["cls"]
    v = case.get("variant", 0)
    d = 2 + v % 2
    batch = 2 + (v // 2) % 3
    sde, y0, ts = _setup(case, d=d, m=2, batch=batch)
    y0 = torch.full((batch, d), 0.5, dtype=torch.float64)
    m = sde.m
    base = sde
    kw = {"dt": 0.1}
    if case.get("method"):
        kw["method"] = case["method"]
    api = getattr(torchsde, case["api"])
    ts_arg = ts
    sig = {"cls": cls, "api": case["api"], "noise_type": case["noise_type"], "sde_type": case["sde_type"]}

    def bm_of(b, mm):
        return torchsde.BrownianInterval(t0=0.0, t1=0.2, size=(b, mm), dtype=torch.float64, entropy=5,
                                         levy_area_approximation="space-time")

    class Wrap(nn.Module):
        def __init__(self, base, **over):
            super().__init__()
            self.base = base
            self.noise_type, self.sde_type = base.noise_type, base.sde_type
            self.f = over.get("f", base.f)
            self.g = over.get("g", base.g)

    if cls == "ts_equal":
        ts_arg = torch.tensor([0.0, 0.1, 0.1], dtype=torch.float64)
    elif cls == "ts_decreasing":
        ts_arg = torch.tensor([0.0, 0.2, 0.1], dtype=torch.float64)
    elif cls == "ts_strings":
        ts_arg = ["0.0", "0.1"]
    elif cls == "ts_single_repeat":
        ts_arg = [0.0, 0.0]
    elif cls == "ts_collapse_in_dtype":
        # distinct Python floats that are one and the same time once cast to y0's dtype (float32): not strictly increasing
        y0 = y0.float()
        ts_arg = [[0.0, 0.1, 0.1 + 1e-10, 0.2], (0, 16777216, 16777217), [0.0, 0.1, 0.2, 0.2 + 1e-9]][v % 3]
        sde = base.float() if False else sde
    elif cls == "y0_1d":
        y0 = y0[0]
    elif cls == "y0_3d":
        y0 = y0.unsqueeze(0)
    elif cls == "y0_not_tensor":
        y0 = y0.tolist()
    elif cls == "bm_batch_mismatch":
        kw["bm"] = bm_of(batch + 1, m)
    elif cls == "bm_noise_mismatch":
        kw["bm"] = bm_of(batch, m + 1)
    elif cls == "bm_1d":
        kw["bm"] = torchsde.BrownianInterval(t0=0.0, t1=0.2, size=(batch,), dtype=torch.float64, entropy=5)
    elif cls == "f_batch_mismatch":
        sde = Wrap(base, f=lambda t, y: base.f(t, y)[:-1])
    elif cls == "f_state_mismatch":
        sde = Wrap(base, f=lambda t, y: base.f(t, y)[:, :-1])
    elif cls == "g_state_mismatch":
        sde = Wrap(base, g=lambda t, y: base.g(t, y)[:, :-1])
    elif cls == "g_batch_mismatch":
        sde = Wrap(base, g=lambda t, y: base.g(t, y)[:-1])
    elif cls == "g_wrong_rank":
        if case["noise_type"] == "diagonal":
            sde = Wrap(base, g=lambda t, y: base.g(t, y).unsqueeze(-1))
        else:
            sde = Wrap(base, g=lambda t, y: base.g(t, y)[..., 0])
    elif cls == "scalar_many_channels":
        if case["noise_type"] != "scalar":
            return Result(labels=["malformed:not_applicable"])
        sde = Wrap(base, g=lambda t, y: base.g(t, y).expand(-1, -1, 2 + v % 3))
    elif cls == "scalar_many_channels_bm":
        # a scalar-noise SDE driven by a user-supplied Brownian motion with several channels, the SDE being given through
        # each documented interface (f,g / f,g_prod / f_and_g_prod): the channel count is then only visible on the bm
        if case["noise_type"] != "scalar":
            return Result(labels=["malformed:not_applicable"])

        class Iface(nn.Module):
            noise_type, sde_type = sde.noise_type, sde.sde_type
        p = Iface()
        gp = lambda t, y, w: (base.g(t, y)[..., 0] * w.sum(-1, keepdim=True))      # noqa: E731
        if v % 3 == 0:
            p.f, p.g = base.f, base.g
        elif v % 3 == 1:
            p.f, p.g_prod = base.f, gp
        else:
            p.f_and_g_prod = lambda t, y, w: (base.f(t, y), gp(t, y, w))          # noqa: E731
        sde = p
        kw["bm"] = torchsde.BrownianInterval(t0=0.0, t1=0.2, size=(batch, 2 + (v // 3) % 2), dtype=torch.float64,
                                             entropy=5)
        kw.setdefault("method", "euler" if case["sde_type"] == "ito" else ["midpoint", "heun", "euler_heun"][v % 3])
    elif cls in ("missing_f", "missing_g", "missing_both"):
        class Partial(nn.Module):
            noise_type, sde_type = sde.noise_type, sde.sde_type
        p = Partial()
        if cls == "missing_f":
            p.g = sde.g
        elif cls == "missing_g":
            p.f = sde.f
        sde = p
    elif cls == "ts_requires_grad":
        ts_arg = ts.clone().requires_grad_(True)
    elif cls in ("dt_requires_grad", "rtol_requires_grad", "atol_requires_grad", "dt_min_requires_grad"):
        name = cls[:-len("_requires_grad")]
        kw[name] = torch.tensor(0.1, dtype=torch.float64, requires_grad=True)
    elif cls in ("no_noise_type", "no_sde_type", "bad_noise_type", "bad_sde_type"):
        class Bare(nn.Module):
            pass
        b = Bare()
        b.f, b.g = sde.f, sde.g
        if cls != "no_noise_type":
            b.noise_type = "banana" if cls == "bad_noise_type" else sde.noise_type
        if cls != "no_sde_type":
            b.sde_type = "banana" if cls == "bad_sde_type" else sde.sde_type
        sde = b
    elif cls in ("fgprod_drift_mismatch", "fg_drift_mismatch"):
        # the SDE is given through a fused interface only (f_and_g_prod, or f_and_g) and its drift has a wrong - but
        # broadcastable - shape: (1, d), (batch, 1) or (d,)
        class Fused(nn.Module):
            noise_type, sde_type = sde.noise_type, sde.sde_type
        p = Fused()
        bad = [lambda f_: f_[:1], lambda f_: f_[:, :1], lambda f_: f_[0]][v % 3]
        gp = lambda t, y, w: (base.g(t, y) * w) if base.noise_type == "diagonal" else \
            torch.bmm(base.g(t, y), w.unsqueeze(-1)).squeeze(-1)                    # noqa: E731
        if cls == "fgprod_drift_mismatch":
            p.f_and_g_prod = lambda t, y, w: (bad(base.f(t, y)), gp(t, y, w))      # noqa: E731
            kw.setdefault("method", "euler" if case["sde_type"] == "ito" else ["midpoint", "heun", "euler_heun"][v % 3])
        else:
            p.f_and_g = lambda t, y: (bad(base.f(t, y)), base.g(t, y))             # noqa: E731
        sde = p
        kw["bm"] = bm_of(batch, m)
    elif cls in ("names_missing_drift", "names_missing_diffusion"):
        # `names` designates a method the SDE does not have (a typo), while the SDE also has the standard-named f and g:
        # the designated drift / diffusion is missing, the standard one was not designated
        key = "drift" if cls == "names_missing_drift" else "diffusion"
        kw["names"] = {key: ["no_such_method", "F", "drift_fn"][v % 3]}
    elif cls == "unknown_method":
        kw["method"] = ["rk4", "Euler", "", "milstein2", "adjoint"][v % 5]
    elif cls == "g_prod_without_bm":
        class OnlyProd(nn.Module):
            noise_type, sde_type = sde.noise_type, sde.sde_type
        p = OnlyProd()
        p.f = sde.f
        p.g_prod = lambda t, y, w: (base.g(t, y) * w) if base.noise_type == "diagonal" else \
            torch.bmm(base.g(t, y), w.unsqueeze(-1)).squeeze(-1)
        sde = p
    else:
        raise ValueError(cls)
    if case["api"] == "sdeint_adjoint" and not isinstance(sde, nn.Module):
        kw["adjoint_params"] = ()
    try:
        with torch.no_grad():
            api(sde, y0, ts_arg, **kw)
        got = "ok"
    except ValueError:
        got = "ValueError"
    except Exception as e:  # noqa
        got = f"{type(e).__name__}: {str(e)[:120]}"
    label = f"malformed:{cls}"
    if got != "ValueError":
        return Result(nontrivial=True, checks=1, labels=[label], fail=Fail(
            f"malformed:{cls}", f"{case['api']} with {cls} ({case['sde_type']}/{case['noise_type']}): expected "
                                f"ValueError, observed {got}", sig))
    return Result(nontrivial=True, checks=1, labels=[label])
