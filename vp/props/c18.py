"""C18 - logqp returns the path-wise KL integrand and does not disturb the solution."""
import torch
from hypothesis import strategies as st
from torch import nn

from .. import brownian_tools, sdes, solve
from ..core import Fail, Result

ID = "C18"
RULE = ("case = generic SDE with a prior drift h (4 noise types, both calculi) x accepted (method, options, Levy mode) x "
        "(t0, dt, t1, output times) x entropy; optional exact variant f = h + g c with drawn constant c and "
        "full-column-rank g. Oracles: extra output has shape (len(ts)-1, batch) and is >= 0; summing it over "
        "sub-intervals equals the coarse-interval value; the state trajectory is identical to the run without logqp "
        "under the same noise (for diagonal noise the logqp run needs one more Brownian channel - the plain run sees the "
        "first d channels through a slicing proxy); both outputs equal an independent user-level augmented SDE "
        "(torch.linalg.lstsq instead of pinverse, plain division for diagonal) solved by the same solver; in the exact "
        "variant the output is 1/2 |c|^2 * interval length. Non-trivial = >= 2 output intervals and >= 3 steps; distinct "
        "= distinct canonical case JSON.")
ASSUMPTIONS = ["the independent augmentation shares the solver (the property says 'as integrated by the chosen solver') "
               "but not base_sde.SDELogqp / misc.stable_division / pinverse"]
BUDGET = {
    "quick": {"examples": 200, "shards": 4, "case_timeout": 60, "wall_budget": 240},
    "thorough": {"examples": 5000, "shards": 16, "case_timeout": 120, "wall_budget": 1800},
}
FUZZ = {"thorough": dict(runs=20000, procs=8, wall_s=600)}
TOLERANCES = {"state_vs_plain": "1e3*eps*scale", "vs_independent_augmentation": "1e-10*scale",
              "additivity": "1e-12*scale", "exact_half_c2": "1e-10 relative", "nonneg": ">= -1e-15"}


class WithC(nn.Module):
    """f = h + g c, so that g^+(f - h) = c when g has full column rank."""

    def __init__(self, base, c):
        super().__init__()
        self.base, self.c = base, c
        self.noise_type, self.sde_type, self.spec = base.noise_type, base.sde_type, base.spec

    def h(self, t, y):
        return self.base.h(t, y)

    def g(self, t, y):
        return self.base.g(t, y)

    def f(self, t, y):
        g = self.base.g(t, y)
        gc = g * self.c if self.noise_type == "diagonal" else torch.einsum("bij,j->bi", g, self.c)
        return self.base.h(t, y) + gc


class Renamed(nn.Module):
    """The same SDE exposed under other method names (mu, sigma, prior); the canonical names hold decoys."""

    def __init__(self, base):
        super().__init__()
        self.base = base
        self.noise_type, self.sde_type, self.spec = base.noise_type, base.sde_type, base.spec

    def mu(self, t, y):
        return self.base.f(t, y)

    def sigma(self, t, y):
        return self.base.g(t, y)

    def prior(self, t, y):
        return self.base.h(t, y)

    def f(self, t, y):
        return -3.0 * y

    def g(self, t, y):
        return 0.5 * self.base.g(t, y) + 0.1

    def h(self, t, y):
        return 2.0 * y


NAMES = {"drift": "mu", "diffusion": "sigma", "prior_drift": "prior"}


class UserAug(nn.Module):
    """Independent, user-level augmentation (y, l): dl = 1/2 |g^+ (f-h)|^2 dt."""

    def __init__(self, base):
        super().__init__()
        self.base = base
        self.noise_type, self.sde_type = base.noise_type, base.sde_type

    def f(self, t, ya):
        y = ya[:, :-1]
        f, g, h = self.base.f(t, y), self.base.g(t, y), self.base.h(t, y)
        if self.noise_type == "diagonal":
            u = (f - h) / g
        else:
            u = torch.linalg.lstsq(g, (f - h).unsqueeze(-1), driver="gelsd").solution.squeeze(-1)
        return torch.cat([f, 0.5 * (u * u).sum(1, keepdim=True)], dim=1)

    def g(self, t, ya):
        y = ya[:, :-1]
        g = self.base.g(t, y)
        if self.noise_type == "diagonal":
            return torch.cat([g, torch.zeros(y.size(0), 1, dtype=y.dtype)], dim=1)
        return torch.cat([g, torch.zeros(y.size(0), 1, g.size(-1), dtype=y.dtype)], dim=1)


@st.composite
def _case(draw, tier):
    spec, combo = draw(solve.spec_and_combo())
    tset = draw(solve.time_setup(max_steps=12 if tier == "quick" else 32))
    exact = draw(st.booleans())
    if not exact:
        # the prior drift may return its input tensor itself (h(t, y) = y)
        spec["h_alias"] = draw(st.sampled_from([None, None, True]))
    if exact and draw(st.sampled_from([False, False, True])):
        # a diffusion of small magnitude: with f - h = g c the integrand is 1/2 |c|^2 whatever the scale of g
        spec["gscale"] = draw(st.sampled_from([1e-2, 1e-4, 1e-5]))
    if exact and spec["noise_type"] in ("general", "additive") and spec["m"] > spec["d"]:
        exact = False
    # per-sample conditioning: every batch member has its own diffusion scale (also for additive noise: constant in y, but
    # a (batch, d, m) tensor whose slices differ)
    spec["rowdep"] = draw(st.booleans())
    return {"spec": spec, "combo": combo, "time": tset, "exact": exact,
            "c": draw(st.lists(st.integers(-1500, 1500).map(lambda k: k / 1000.0), min_size=4, max_size=4)),
            "outs": draw(st.lists(st.floats(0.02, 0.98), min_size=0, max_size=4)),
            "entropy": draw(st.integers(0, 2 ** 31 - 2)),
            # how the solve is requested: through sdeint_adjoint (same forward values), with extra=True (one more return
            # value), with adaptive steps (the augmented state takes part in the error norm, so only the oracles that do
            # not compare with the un-augmented run apply)
            "via_adjoint": draw(st.sampled_from([False, False, True])),
            "extra": draw(st.sampled_from([False, False, True])),
            "adaptive": draw(st.sampled_from([False, False, False, True])),
            # drift, diffusion and prior drift supplied under other names (`names=`), decoys under the canonical ones
            "renamed": draw(st.sampled_from([False, False, True])),
            # an inner output time a hair (5e-4 dt) after a step-grid point: still an output strictly inside a step
            "near_grid_out": draw(st.sampled_from([None, None, 1, 2, 3]))}


def strategy(tier):
    return _case(tier)


def enumerate_cases(tier):
    """Every accepted cell twice (generic and exact f - h = g c variants) on a time-dependent SDE."""
    for rnd, spec, combo in solve.enumerate_cells(7005, all_levy=False):
        for exact in (False, True):
            spec = dict(spec, rowdep=(exact or rnd.random() < 0.5))
            yield {"spec": spec, "combo": combo, "exact": exact and not (spec["m"] > spec["d"]), "near_grid_out": rnd.choice([None, 2, 4]),
                   "time": {"t0": 0.1, "t1": 0.1 + 6 * 0.125, "dt": 0.125, "tdtype": "float64"},
                   "c": [round(rnd.uniform(-1.5, 1.5), 3) for _ in range(4)], "outs": [0.3, 0.7],
                   "entropy": rnd.randrange(2 ** 31 - 2), "via_adjoint": rnd.random() < 0.3,
                   # solvers that carry state are always also continued through extra=True / extra_solver_state
                   "extra": combo["method"] == "reversible_heun" or rnd.random() < 0.3,
                   "adaptive": combo["method"] != "reversible_heun" and rnd.random() < 0.2, "renamed": rnd.random() < 0.35}


def run_case(case):
    import torchsde
    spec, combo, tm = case["spec"], case["combo"], case["time"]
    dtype = torch.float64
    eps = torch.finfo(dtype).eps
    sde = sdes.build_generic(spec)
    d, m, B = spec["d"], spec["m"], spec["batch"]
    diag = spec["noise_type"] == "diagonal"
    # condition number of every diffusion matrix evaluated during the case (all solver stages, all solves): the oracle
    # tolerances below are stated relative to it
    seen_cond = [1.0]
    if not diag:
        gen_sde = sde

        def g_spy(t, y):
            out = type(gen_sde).g(gen_sde, t, y)
            with torch.no_grad():
                if out.dim() == 3 and out.size(0) <= 64:
                    seen_cond[0] = max(seen_cond[0], float(torch.linalg.cond(out.detach()).max()))
            return out
        gen_sde.g = g_spy
    if case["exact"]:
        c = torch.tensor(case["c"][:m], dtype=dtype)
        sde = WithC(sde, c)
    y0 = sdes.y0_for(spec)
    vals = sorted({tm["t0"], tm["t1"]} | {tm["t0"] + (tm["t1"] - tm["t0"]) * f for f in case["outs"]})
    if case.get("near_grid_out"):
        tn = tm["t0"] + (case["near_grid_out"] + 5e-4) * tm["dt"]
        if tm["t0"] < tn < tm["t1"]:
            vals = sorted(set(vals) | {tn})
    ts = torch.tensor(vals, dtype=dtype)
    if any(float(b) <= float(a) for a, b in zip(ts[:-1], ts[1:])):
        return Result(labels=["degenerate_ts"])
    sig = {"method": combo["method"], "noise_type": spec["noise_type"], "sde_type": spec["sde_type"],
           "exact": case["exact"]}
    m_bm = m + 1 if diag else m

    def mk():
        return torchsde.BrownianInterval(t0=float(ts[0]), t1=float(ts[-1]), size=(B, m_bm), dtype=dtype,
                                         entropy=case["entropy"], levy_area_approximation=combo["levy"])

    def sliced():
        inner = mk()
        if not diag:
            return inner

        def fn(name, x):
            return x[:, :m, :m] if name == "A" else x[:, :m]
        return brownian_tools.make_mapped(inner, (B, m), fn)

    opts = dict(combo["options"]) or None
    checks = 0
    adaptive = bool(case.get("adaptive"))
    akw = dict(adaptive=True, rtol=1e-2, atol=1e-2, dt_min=tm["dt"] / 16) if adaptive else {}
    entry = torchsde.sdeint_adjoint if case.get("via_adjoint") else torchsde.sdeint
    true_sde = sde                      # what the independent augmentation integrates
    nkw = {}
    if case.get("renamed"):
        sde = Renamed(sde)
        nkw = {"names": dict(NAMES)}

    def fail(clause, msg):
        return Result(nontrivial=True, checks=checks, fail=Fail(clause, msg, sig))

    with torch.no_grad():
        out = entry(sde, y0, ts, bm=mk(), method=combo["method"], dt=tm["dt"], options=opts, logqp=True,
                    extra=bool(case.get("extra")), **akw, **nkw)
        checks += 1
        if len(out) != (3 if case.get("extra") else 2):
            return fail("shape", f"logqp=True, extra={bool(case.get('extra'))} returned {len(out)} values")
        ys, lq = out[0], out[1]
        if case.get("extra"):
            _, extra_ref = torchsde.sdeint(sde, y0, ts, bm=sliced(), method=combo["method"], dt=tm["dt"], options=opts,
                                           extra=True, **akw, **nkw)
            checks += 1
            if len(out[2]) != len(extra_ref):
                return fail("shape", f"extra solver state has {len(out[2])} entries with logqp, {len(extra_ref)} without")
        ys_plain = torchsde.sdeint(sde, y0, ts, bm=sliced(), method=combo["method"], dt=tm["dt"], options=opts, **nkw) \
            if not adaptive else ys
        y0a = torch.cat([y0, torch.zeros(B, 1, dtype=dtype)], dim=1)
        ya = torchsde.sdeint(UserAug(true_sde), y0a, ts, bm=mk(), method=combo["method"], dt=tm["dt"], options=opts,
                             **akw)
        # the same independent augmentation from an initial state moved by 1e-15 (relative): how far its log-ratio moves is
        # the yardstick for "equal up to rounding" on this problem (near-orthogonal f - h and g, adaptive schedules that
        # amplify last-bit differences, ...)
        ya_j = torchsde.sdeint(UserAug(true_sde), y0a * (1.0 + 1e-15), ts, bm=mk(), method=combo["method"], dt=tm["dt"],
                               options=opts, **akw)
        ts2 = torch.stack([ts[0], ts[-1]])
        _, lq_coarse = torchsde.sdeint(sde, y0, ts2, bm=mk(), method=combo["method"], dt=tm["dt"], options=opts,
                                       logqp=True, **akw, **nkw)

    if case.get("extra") and not adaptive:
        # continuation through extra=True / extra_solver_state with logqp=True on both legs: the log-ratio of the legs must
        # be that of the one-shot solve (restart on the step grid, dyadic times)
        ts_r = torch.tensor([0.0, 0.25, 0.625], dtype=dtype)

        def mk_r():
            return torchsde.BrownianInterval(t0=0.0, t1=0.625, size=(B, m_bm), dtype=dtype, entropy=case["entropy"],
                                             levy_area_approximation=combo["levy"])
        with torch.no_grad():
            _, lq_one = entry(sde, y0, ts_r, bm=mk_r(), method=combo["method"], dt=0.125, options=opts, logqp=True, **nkw)
            bm_r = mk_r()
            ys_1, lq_1, ex_1 = entry(sde, y0, ts_r[:2], bm=bm_r, method=combo["method"], dt=0.125, options=opts,
                                     logqp=True, extra=True, **nkw)
            ys_2, lq_2, _ = entry(sde, ys_1[-1], ts_r[1:], bm=bm_r, method=combo["method"], dt=0.125, options=opts,
                                  logqp=True, extra=True, extra_solver_state=ex_1, **nkw)
        checks += 1
        if tuple(lq_one.shape) != (2, B) or tuple(lq_1.shape) != (1, B) or tuple(lq_2.shape) != (1, B):
            return fail("shape", f"logqp output shapes {tuple(lq_one.shape)} (3 times), {tuple(lq_1.shape)} and "
                                 f"{tuple(lq_2.shape)} (2 times each) for batch size {B}")
        e_r = float((torch.cat([lq_1, lq_2]) - lq_one).abs().max()) / max(1.0, float(lq_one.abs().max()))
        if not e_r <= 1e-12:
            return fail("additivity_across_restart", f"logqp over [0, .25] + continued over [.25, .625] through "
                                                     f"extra_solver_state differs from the one-shot solve: rel {e_r:.3e} "
                                                     f"({solve.combo_label(combo)})")
    checks += 1
    if tuple(lq.shape) != (len(ts) - 1, B) or tuple(ys.shape) != (len(ts), B, d):
        return fail("shape", f"logqp output shape {tuple(lq.shape)}, states {tuple(ys.shape)} for {len(ts)} times")
    checks += 1
    if not bool((lq >= -1e-15).all()) or not bool(torch.isfinite(lq).all()):
        return fail("nonnegative", f"logqp output has negative / non-finite entries: min {float(lq.min()):.3e}")
    scale = max(1.0, float(ys_plain.abs().max()))
    e_state = float((ys - ys_plain).abs().max()) / scale
    checks += 1
    if not e_state <= 1e3 * eps:
        return fail("state_disturbed", f"states with logqp=True differ from logqp=False under the same noise: rel "
                                       f"{e_state:.3e} ({solve.combo_label(combo)})")
    lscale = max(1.0, float(lq.abs().max()))
    e_add = float((lq.sum(0) - lq_coarse[0]).abs().max()) / max(1.0, float(lq_coarse.abs().max()))
    checks += 1
    if not e_add <= 1e-12 * max(1, len(ts)):
        return fail("additivity", f"sum over {len(ts) - 1} sub-intervals differs from the coarse interval: {e_add:.3e}")
    l_user = ya[1:, :, -1] - ya[:-1, :, -1]
    e_aug = max(float((lq - l_user).abs().max()) / lscale, float((ys - ya[:, :, :-1]).abs().max()) / scale)
    checks += 1
    # the library uses a pseudo-inverse, the harness's augmentation a least-squares solve: for an ill-conditioned diffusion
    # matrix they agree to eps * cond(g)^2 only (conditioning of the problem, not of either implementation)
    cond_aug = seen_cond[0]
    l_user_j = ya_j[1:, :, -1] - ya_j[:-1, :, -1]
    amp_aug = max(float((l_user - l_user_j).abs().max()) / lscale, float((ya - ya_j)[:, :, :-1].abs().max()) / scale)
    tol_aug = 1e-10 + 1e3 * eps * min(cond_aug, 1e5) ** 2 + 1e3 * amp_aug
    if not e_aug <= tol_aug:
        return fail("vs_independent_augmentation", f"logqp differs from the user-level augmented SDE solved by the same "
                                                   f"solver: rel {e_aug:.3e} ({solve.combo_label(combo)})")
    e_exact = 0.0
    if case["exact"]:
        want = 0.5 * float((c * c).sum()) * (ts[1:] - ts[:-1]).unsqueeze(-1).expand_as(lq)
        e_exact = float((lq - want).abs().max()) / max(float(want.abs().max()), 1e-6)
        checks += 1
        # conditioning of the construction itself: the harness forms f = h + g c and the library subtracts h again, so
        # |g c| is recovered with relative error eps |h| / |g c| (twice that in its square); with full-rank g the
        # pseudo-inverse adds eps cond(g). A mis-scaled integrand is off by 1e-5 or more.
        with torch.no_grad():
            t_mid = ts[0]
            ystates = ys.reshape(-1, d)[: 4 * B]
            hh = true_sde.base.h(t_mid, ystates) if hasattr(true_sde, "base") else true_sde.h(t_mid, ystates)
            gg = (true_sde.base if hasattr(true_sde, "base") else true_sde).g(t_mid, ystates)
            gc = gg * c if diag else torch.einsum("bij,j->bi", gg, c)
            small = float(gc.abs().clamp_min(1e-300).min()) if float(c.abs().max()) > 0 else 1.0
            cond = 1.0 if diag else max(float(torch.linalg.cond(gi)) for gi in gg)
        tol_exact = 1e-10 + 1e3 * eps * (float(hh.abs().max()) / max(small, 1e-300) + cond)
        if not e_exact <= tol_exact:
            return fail("exact_half_c_squared", f"f-h=g c with c={c.tolist()}: logqp != 1/2|c|^2 dt, rel {e_exact:.3e} "
                                                f"(tolerance {tol_exact:.1e} from the conditioning of the construction)")
    steps = (tm["t1"] - tm["t0"]) / tm["dt"]
    labels = [solve.combo_label(combo), "exact_variant" if case["exact"] else "generic_variant"] + \
        [k for k in ("via_adjoint", "extra", "adaptive", "renamed") if case.get(k)]
    return Result(nontrivial=len(ts) >= 3 and steps >= 3, labels=labels, checks=checks,
                  metrics={"state_err_in_eps": e_state / eps, "additivity_err": e_add, "augmentation_err": e_aug,
                           "augmentation_err_over_tolerance": e_aug / tol_aug,
                           "exact_err": e_exact})
