"""C15 - reversible Heun is algebraically reversible."""
import torch
from hypothesis import strategies as st
from torch import nn

from .. import brownian_tools, sdes
from ..core import Fail, Result

ID = "C15"
RULE = ("case = generic SDE (Stratonovich, 4 noise types, drawn sizes) x dyadic (t0, dt) x n in 1..64 steps x entropy x "
        "float64 (or float32 state with float64 times); variants: a single step clipped at ts[-1] (span < dt), outputs strictly inside steps (symmetric and asymmetric under reversal), a third leg that reverses the reverse run with ReverseBrownian(ReverseBrownian(bm)). reversible_heun is run forward with extra=True; then reversible_heun is run on the time-reversed, "
        "negated SDE (f_r(s,y) = -f(-s,y), g_r(s,y) = -g(-s,y)) with ReverseBrownian and the negated final (f,g) extra "
        "state; every state of the forward trajectory must be reconstructed: relative 1e-12 for a single step, 1e-8 for "
        "n <= 64 steps; the reconstructed extra state must equal the negated initial one. Non-trivial = batch*d >= 2 and "
        "(n == 1 or n >= 8); distinct = distinct canonical case JSON.")
ASSUMPTIONS = ["numeric evidence over generated f, g - not a symbolic proof of the identity",
               "dyadic grids, so that -T + k*dt mirrors t0 + (n-k)*dt exactly"]
BUDGET = {
    "quick": {"examples": 200, "shards": 4, "case_timeout": 60, "wall_budget": 240},
    "thorough": {"examples": 5000, "shards": 16, "case_timeout": 120, "wall_budget": 1800},
}
FUZZ = {"thorough": dict(runs=20000, procs=8, wall_s=600)}
TOLERANCES = {"one_step": 1e-12, "n_steps<=64": 1e-8}


class Reversed(nn.Module):
    def __init__(self, base):
        super().__init__()
        self.base = base
        self.noise_type, self.sde_type = base.noise_type, base.sde_type

    def f(self, t, y):
        return -self.base.f(-t, y)

    def g(self, t, y):
        return -self.base.g(-t, y)


@st.composite
def _case(draw, tier):
    spec = draw(sdes.generic_specs(sde_types=["stratonovich"]))
    t0, dt, n = sdes.dyadic_grid(draw, max_log2_steps=6)
    if draw(st.sampled_from([True, False, False])):
        n = 1
    return {"spec": spec, "t0": t0, "dt": dt, "n": n, "entropy": draw(st.integers(0, 2 ** 31 - 2)),
            "levy": draw(st.sampled_from(["none", "none", "space-time", "davie"])),
            # a single step clipped at ts[-1] (span = frac * dt < dt) and outputs strictly inside steps (dyadic offsets)
            "clip_frac": draw(st.sampled_from([None, None, 0.5, 0.25, 0.75])) if n == 1 else None,
            "dense": draw(st.sampled_from([False, False, True])),
            # outputs strictly inside drawn steps at drawn dyadic fractions - not symmetric under time reversal, so the forward
            # and the reverse solve are asked for different-looking output grids over the same step grid
            "inside": draw(st.lists(st.tuples(st.integers(0, 63), st.sampled_from([0.125, 0.25, 0.375, 0.5, 0.625, 0.75])),
                                    min_size=0, max_size=3)),
            # there - back - there again: the third leg is driven by ReverseBrownian(ReverseBrownian(bm))
            "third_leg": draw(st.sampled_from([False, False, True])),
            # sparse: only ts[0], ts[-1] and the drawn inside times are requested (not every grid point), so nothing but
            # the solver's own dt grid can make the two passes take the same steps
            "sparse": draw(st.booleans()),
            # the reverse leg requested through sdeint_adjoint (documented to take extra_solver_state like sdeint; same
            # forward values by C09)
            "reverse_via_adjoint": draw(st.sampled_from([False, False, True])),
            # single-precision state, parameters and Brownian motion with double-precision times (a tensor ts is used as
            # given): "up to rounding error" is then float32 rounding error
            "float32_state": draw(st.sampled_from([False, False, False, True]))}


def strategy(tier):
    return _case(tier)


def run_case(case):
    import torchsde
    from torchsde._brownian import ReverseBrownian
    spec = case["spec"]
    f32 = bool(case.get("float32_state"))
    if f32:
        spec = dict(spec, dtype="float32")
    sde = sdes.build_generic(spec)
    y0 = sdes.y0_for(spec)
    t0, dt, n = case["t0"], case["dt"], case["n"]
    times = [t0 + k * dt for k in range(n + 1)]
    if case.get("clip_frac"):
        times = [t0, t0 + case["clip_frac"] * dt]          # one step, clipped: the step taken is shorter than dt
    elif case.get("dense"):
        # two extra outputs inside every other step (dyadic fractions, so that the reversed times mirror exactly)
        extra_t = [t0 + (k + f) * dt for k in range(0, n, 2) for f in (0.25, 0.75)]
        times = sorted(set(times + extra_t))
    if not case.get("clip_frac") and case.get("inside"):
        inside_t = [t0 + ((k % n) + f) * dt for k, f in case["inside"]]
        times = sorted(set(([times[0], times[-1]] if case.get("sparse") else times) + inside_t))
    ts = torch.tensor(times, dtype=torch.float64)
    # the Brownian motion is the genuine object (a proxy would hide it from ReverseBrownian); its calls are recorded on the side
    bm = sdes.make_bm(torchsde, spec, ts[0], ts[-1], case["entropy"], levy=case["levy"])
    sig = {"noise_type": spec["noise_type"], "n": "1" if n == 1 else "many"}
    with torch.no_grad(), brownian_tools.spy(bm) as bm_log:
        ys, (fT, gT, zT) = torchsde.sdeint(sde, y0, ts, bm=bm, method="reversible_heun", dt=dt, extra=True)
        f0, g0 = sde.f(ts[0], y0), sde.g(ts[0], y0)
        fwd_log = list(bm_log)
        del bm_log[:]
        ts_rev = -ts.flip(0)
        rev_api = torchsde.sdeint_adjoint if case.get("reverse_via_adjoint") else torchsde.sdeint
        supplied = (-fT, -gT, zT)
        supplied_before = tuple(x.clone() for x in supplied)
        y_end_before = ys[-1].clone()
        ys_rev, (fr, gr, zr) = rev_api(Reversed(sde), ys[-1], ts_rev, bm=ReverseBrownian(bm),
                                       method="reversible_heun", dt=dt, extra=True,
                                       extra_solver_state=supplied)
        mutated = not all(torch.equal(a_, b_) for a_, b_ in zip(supplied, supplied_before)) or \
            not torch.equal(ys[-1], y_end_before)
        rev_log = list(bm_log)
        ys_again = None
        if case.get("third_leg"):
            # the reverse run reversed once more: SDE Reversed(Reversed(sde)) (= sde), Brownian motion reversed twice,
            # extra state negated again; it must retrace the forward trajectory
            ys_again, _ = torchsde.sdeint(Reversed(Reversed(sde)), ys_rev[-1], ts, bm=ReverseBrownian(ReverseBrownian(bm)),
                                          method="reversible_heun", dt=dt, extra=True, extra_solver_state=(-fr, -gr, zr))
    back = ys_rev.flip(0)
    scale = max(1.0, float(ys.abs().max()))
    e = float((back - ys).abs().max()) / scale
    if ys_again is not None:
        e = max(e, float((ys_again - ys).abs().max()) / scale)
    e_extra = max(float((fr + f0).abs().max()), float((gr + g0).abs().max()), float((zr - y0).abs().max())) / \
        max(1.0, float(f0.abs().max()), float(g0.abs().max()), scale)
    tol = 1e-12 if n == 1 else 1e-8
    if f32:
        # float32 rounding (eps 1.2e-7): errors are amplified by the flow over many steps, so the value clause is kept loose
        # here; what makes this variant sharp is the query clause (the reverse solve must be fed the very same intervals)
        tol = 2e-5 if n == 1 else 5e-3
    labels = (["float32_state_float64_times"] if f32 else []) + [f"noise={spec['noise_type']}", "single_step" if n == 1 else f"steps>={8 if n >= 8 else 2}",
              f"levy={case['levy']}"] + (["clipped_single_step"] if case.get("clip_frac") else []) + \
        (["outputs_inside_steps"] if case.get("dense") and not case.get("clip_frac") else []) + \
        (["asymmetric_outputs_inside_steps"] if case.get("inside") and not case.get("clip_frac") else []) + \
        (["third_leg_doubly_reversed_bm"] if case.get("third_leg") else []) + \
        (["reverse_leg_via_sdeint_adjoint"] if case.get("reverse_via_adjoint") else []) + \
        (["sparse_outputs"] if case.get("sparse") and case.get("inside") and not case.get("clip_frac") else [])
    sig = dict(sig, dtype=spec["dtype"])
    fail = None
    if rev_log != fwd_log[::-1]:
        k = next((i for i, (p_, q_) in enumerate(zip(rev_log, fwd_log[::-1])) if p_ != q_), min(len(rev_log), len(fwd_log)))
        fail = Fail("reverse_queries_do_not_mirror_forward",
                    f"the reverse solve asked the Brownian motion for {len(rev_log)} intervals, the forward solve for "
                    f"{len(fwd_log)}; they are not the same intervals in reverse order (first difference at reverse step {k}: "
                    f"{rev_log[k] if k < len(rev_log) else None} vs {fwd_log[::-1][k] if k < len(fwd_log) else None})", sig)
    elif mutated:
        fail = Fail("supplied_state_modified", "the reverse solve modified the state / extra solver state it was given in "
                                               "place (it cannot be used for a second reverse solve)", sig)
    elif not (e <= tol) or not bool(torch.isfinite(back).all()):
        fail = Fail("not_reversible", f"reverse solve reconstructs the forward trajectory only to {e:.3e} (relative) over "
                                      f"{n} step(s) of size {dt} ({spec['noise_type']} noise)", sig)
    elif not e_extra <= tol:
        fail = Fail("extra_state_not_reversed", f"reconstructed extra state differs from the negated initial (f,g,z) by "
                                                f"{e_extra:.3e} after {n} step(s)", sig)
    return Result(nontrivial=spec["batch"] * spec["d"] >= 2 and (n == 1 or n >= 8), labels=labels, checks=3, fail=fail,
                  metrics={("f32_" if f32 else "") + ("one_step_err" if n == 1 else "multi_step_err"): e, ("f32_" if f32 else "") + "extra_state_err": e_extra})
