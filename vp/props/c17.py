"""C17 - special noise types agree with their general-noise embedding."""
import torch
from hypothesis import strategies as st

from .. import sdes, solve
from ..core import Fail, Result

ID = "C17"
RULE = ("case = generic SDE with diagonal (element-wise g_i(t,y_i)), scalar or additive structure x every solver that "
        "accepts both the special and the general declaration (euler; euler_heun, heun, midpoint, reversible_heun, "
        "log_ode with davie/foster) x (t0, dt, t1, output times) x entropy x float32/float64 x fixed or adaptive steps (every "
        "cell is enumerated once with each, on a time-dependent SDE; Hypothesis adds random cases). The same SDE is solved "
        "under its special declaration and under noise_type='general' (diffusion as a batch of d x m matrices; "
        "diag_embed for diagonal) with equal-entropy Brownian motions; all outputs must agree to 1e3*eps*scale "
        "(observed bit-identical). Non-trivial = >= 3 steps and state dimension >= 2 for diagonal/scalar; distinct = "
        "distinct canonical case JSON.")
ASSUMPTIONS = ["diagonal diffusion is element-wise, as the documentation requires; for log_ode the special declarations "
               "contribute no Levy-area term, which matches the general embedding because their vector fields commute "
               "(diagonal element-wise, scalar m=1, additive)"]
BUDGET = {
    "quick": {"examples": 200, "shards": 4, "case_timeout": 60, "wall_budget": 240},
    "thorough": {"examples": 5000, "shards": 16, "case_timeout": 120, "wall_budget": 1800},
}
FUZZ = {"thorough": dict(runs=20000, procs=8, wall_s=600)}
TOLERANCES = {"solution": "1e3 * eps(dtype) * max(1, |y|)"}
SOLVERS = {"ito": ["euler"], "stratonovich": ["euler_heun", "heun", "midpoint", "reversible_heun", "log_ode"]}


@st.composite
def _case(draw, tier):
    spec = draw(sdes.generic_specs(noise_types=["diagonal", "scalar", "additive"], dtypes=("float64", "float32")))
    spec["rowdep"] = draw(st.booleans())      # per-sample conditioning: the diffusion differs between batch members
    # a diffusion returned as one stored tensor (state-independent, valid for every special noise type)
    spec["gstored"] = draw(st.sampled_from([None, None, None, True]))
    method = draw(st.sampled_from(SOLVERS[spec["sde_type"]]))
    levy = draw(st.sampled_from(["davie", "foster"])) if method == "log_ode" else \
        draw(st.sampled_from(["none", "none", "space-time", "foster"]))
    tset = draw(solve.time_setup(max_steps=16 if tier == "quick" else 48, dtypes=(spec["dtype"],)))
    if spec["dtype"] == "float64" and draw(st.sampled_from([False, False, False, True])):
        # a time axis far from zero (|t| >> dt): both declarations must still agree
        shift = draw(st.sampled_from([1e4, -1e5, 86400.0 * 30]))
        tset = dict(tset, t0=tset["t0"] + shift, t1=tset["t1"] + shift)
    return {"spec": spec, "method": method, "levy": levy, "time": tset,
            "outs": draw(st.lists(st.floats(0.01, 0.99), min_size=0, max_size=3)),
            "entropy": draw(st.integers(0, 2 ** 31 - 2)), "adaptive": draw(st.sampled_from([False, False, True])),
            # logqp=True: the log-ratio output is part of what sdeint returns for the declared SDE; it must agree between
            # the two declarations as well (scalar / additive only: a diagonal declaration takes one more Brownian channel
            # under logqp); optionally with a diffusion of small magnitude
            "logqp": draw(st.sampled_from([False, False, True])),
            "small_g": draw(st.sampled_from([None, None, 1e-3, 1e-4])),
            # both declarations also offer the fused f_and_g and are solved with the drift renamed through `names`
            # (names={'drift': 'h'}): whatever the library makes of that combination, it makes the same of both declarations
            "fused_names": draw(st.sampled_from([False, False, False, True]))}


def strategy(tier):
    return _case(tier)


def enumerate_cases(tier):
    """Every (special noise type, solver accepting both declarations, Levy mode) cell, fixed and adaptive steps, on a
    time-dependent SDE."""
    import os
    import random
    seed = int(os.environ.get("VERIF_SEED", "1") or 1)
    idx = 0
    for sde_type, methods_ in SOLVERS.items():
        for method in methods_:
            for nt in ("diagonal", "scalar", "additive"):
                for levy in (["davie", "foster"] if method == "log_ode" else ["none", "space-time"]):
                    for adaptive in (False, True):
                        idx += 1
                        rnd = random.Random(seed * 6007 + idx)
                        spec = {"sde_type": sde_type, "noise_type": nt, "d": 2, "m": 1 if nt == "scalar" else 2,
                                "batch": 2, "hidden": 3, "seed": rnd.randrange(2 ** 31), "tdep": True, "fscale": 1.0,
                                "gscale": 0.7, "dtype": "float64", "rowdep": idx % 3 != 0}
                        yield {"spec": spec, "method": method, "levy": levy, "outs": [0.4], "adaptive": adaptive,
                               "time": {"t0": 0.1, "t1": 0.1 + 5 * 0.125, "dt": 0.125, "tdtype": "float64"},
                               "entropy": rnd.randrange(2 ** 31 - 2)}
                        if not adaptive:
                            # the same cell on a time axis far from zero (|t| >> dt), with a stored diffusion tensor
                            far = rnd.choice([1e4, -1e5, 2.5e6])
                            yield {"spec": dict(spec, gstored=(idx % 2 == 0) or None), "method": method, "levy": levy,
                                   "outs": [0.4], "adaptive": False,
                                   "time": {"t0": far + 0.1, "t1": far + 0.1 + 5 * 0.125, "dt": 0.125, "tdtype": "float64"},
                                   "entropy": rnd.randrange(2 ** 31 - 2)}


    # logqp=True with a diffusion of ordinary and of small magnitude (scalar and additive declarations)
    for k, (sde_type, method, nt, small) in enumerate([(st_, me_, nt_, sm_) for st_, me_ in (("ito", "euler"), ("stratonovich", "midpoint"))
                                                      for nt_ in ("scalar", "additive") for sm_ in (None, 1e-4)]):
        rnd = random.Random(seed * 6029 + k)
        spec = {"sde_type": sde_type, "noise_type": nt, "d": 2, "m": 1 if nt == "scalar" else 2, "batch": 3, "hidden": 3,
                "seed": rnd.randrange(2 ** 31), "tdep": True, "fscale": 1.0, "gscale": 0.7, "dtype": "float64", "rowdep": k % 2 == 0}
        yield {"spec": spec, "method": method, "levy": "none", "outs": [0.4], "adaptive": False, "logqp": True, "small_g": small,
               "time": {"t0": 0.1, "t1": 0.1 + 5 * 0.125, "dt": 0.125, "tdtype": "float64"}, "entropy": rnd.randrange(2 ** 31 - 2)}
    for k, (sde_type, method) in enumerate((("ito", "euler"), ("stratonovich", "midpoint"), ("stratonovich", "heun"),
                                            ("stratonovich", "euler_heun"), ("stratonovich", "log_ode"),
                                            ("stratonovich", "reversible_heun"))):
        for nt in ("diagonal", "scalar", "additive"):
            rnd = random.Random(seed * 6037 + k * 3 + len(nt))
            spec = {"sde_type": sde_type, "noise_type": nt, "d": 2, "m": 1 if nt == "scalar" else 2, "batch": 2, "hidden": 3,
                    "seed": rnd.randrange(2 ** 31), "tdep": True, "fscale": 1.0, "gscale": 0.7, "dtype": "float64", "rowdep": False}
            yield {"spec": spec, "method": method, "levy": "davie" if method == "log_ode" else "none", "outs": [0.4],
                   "adaptive": False, "fused_names": True, "time": {"t0": 0.1, "t1": 0.1 + 4 * 0.125, "dt": 0.125, "tdtype": "float64"},
                   "entropy": rnd.randrange(2 ** 31 - 2)}
    # a batch larger than 2^16 (Monte-Carlo sized): every row must still agree, also the last ones
    for k, (sde_type, method) in enumerate((("ito", "euler"), ("stratonovich", "midpoint"))):
        rnd = random.Random(seed * 6011 + k)
        spec = {"sde_type": sde_type, "noise_type": "diagonal", "d": 2, "m": 2, "batch": 65536 + rnd.randint(1, 5000),
                "hidden": 2, "seed": rnd.randrange(2 ** 31), "tdep": True, "fscale": 1.0, "gscale": 0.7, "dtype": "float32",
                "rowdep": False}
        yield {"spec": spec, "method": method, "levy": "none", "outs": [], "adaptive": False,
               "time": {"t0": 0.0, "t1": 0.375, "dt": 0.125, "tdtype": "float32"}, "entropy": rnd.randrange(2 ** 31 - 2)}


def run_case(case):
    import torchsde
    spec, tm = case["spec"], case["time"]
    dtype = getattr(torch, spec["dtype"])
    eps = torch.finfo(dtype).eps
    sde = sdes.build_generic(spec)
    gen = sdes.GeneralEmbedding(sde)
    y0 = sdes.y0_for(spec)
    vals = sorted({tm["t0"], tm["t1"]} | {tm["t0"] + (tm["t1"] - tm["t0"]) * f for f in case["outs"]})
    ts = torch.tensor(vals, dtype=dtype)
    if any(float(b) <= float(a) for a, b in zip(ts[:-1], ts[1:])):
        return Result(labels=["degenerate_ts"])
    combo = {"method": case["method"], "options": {}, "levy": case["levy"]}
    sig = {"method": case["method"], "noise_type": spec["noise_type"], "levy": case["levy"]}
    outs = []
    kw = dict(adaptive=True, rtol=1e-2, atol=1e-2, dt_min=tm["dt"] / 16) if case.get("adaptive") else {}
    logqp = bool(case.get("logqp")) and spec["noise_type"] in ("scalar", "additive") and case["method"] != "reversible_heun" \
        and not case.get("adaptive") and spec["batch"] <= 16
    if logqp:
        kw["logqp"] = True
        if case.get("small_g"):
            sde.gscale = sde.gscale * case["small_g"]
    class Fused(torch.nn.Module):
        def __init__(self, inner):
            super().__init__()
            self.inner = inner
            self.noise_type, self.sde_type, self.spec = inner.noise_type, inner.sde_type, spec

        def f(self, t, y):
            return self.inner.f(t, y)

        def g(self, t, y):
            return self.inner.g(t, y)

        def h(self, t, y):
            return self.inner.h(t, y)

        def f_and_g(self, t, y):
            return self.inner.f(t, y), self.inner.g(t, y)

    fused = bool(case.get("fused_names")) and not logqp
    if fused:
        kw["names"] = {"drift": "h"}
    for s in ((Fused(sde), Fused(gen)) if fused else (sde, gen)):
        bm = sdes.make_bm(torchsde, spec, ts[0], ts[-1], case["entropy"], levy=case["levy"])
        with torch.no_grad():
            ys, _ = solve.run(torchsde, s, y0, ts, combo, tm["dt"], bm=bm, **kw)
        outs.append(ys)
    lq_err = 0.0
    if logqp:
        (ya_, la_), (yb_, lb_) = outs
        outs = [ya_, yb_]
        lq_err = float((la_ - lb_).abs().max()) / max(float(la_.abs().max()), float(lb_.abs().max()), 1e-300)
    a, b = outs
    scale = max(1.0, float(a.abs().max()))
    e = float((a - b).abs().max()) / scale
    steps = (tm["t1"] - tm["t0"]) / tm["dt"]
    labels = [f"{spec['sde_type']}/{spec['noise_type']}/{case['method']}", f"levy={case['levy']}",
              f"dtype={spec['dtype']}", "bit_identical" if torch.equal(a, b) else "differs_in_last_bits",
              "adaptive" if case.get("adaptive") else "fixed"] + (["batch>65535"] if spec["batch"] > 65535 else []) + (["per_sample_conditioning"] if spec.get("rowdep") else []) + (["stored_diffusion_tensor"] if spec.get("gstored") else [])
    fail = None
    if fused:
        labels.append("fused_interface+renamed_drift")
    if logqp:
        labels.append("logqp" + (f"+g*{case['small_g']}" if case.get("small_g") else ""))
    if logqp and not lq_err <= 1e-6:
        # both declarations compute |g^+ (f - h)|^2 from the same g (a least-squares solve: conditioning ~ eps * cond^2)
        fail = Fail("special_vs_general:logqp", f"log-ratio returned with logqp=True for the {spec['noise_type']} declaration "
                                                f"and for its general embedding disagree: rel {lq_err:.3e} ({case['method']})", sig)
    elif not (e <= 1e3 * eps) or not bool(torch.isfinite(a).all()):
        fail = Fail("special_vs_general", f"{spec['noise_type']} declaration and its general embedding disagree with "
                                          f"{case['method']} (levy={case['levy']}): rel {e:.3e}", sig)
    return Result(nontrivial=steps >= 3 and (spec["d"] >= 2 or spec["noise_type"] == "additive"), labels=labels,
                  checks=1, fail=fail, metrics={"err_in_eps": e / eps})
