"""C07 - Brownian objects answer every valid query: no crash, bounded stack, bounded cache."""
import inspect
import math
import sys

import torch
from hypothesis import strategies as st

from .. import brownian_tools, history
from ..core import Fail, Result, WorkBudgetExceeded, crash_fail

ID = "C07"
RULE = ("three case kinds: (history) any documented constructor configuration incl. cache_size 0, dt hints, tol>0, "
        "dyadic mode + generated query history with sub-tolerance and 1-ulp queries; (sweep) 10^3..10^5 consecutive "
        "small steps forward then backward; (sdeint) torchsde.sdeint itself driving bm=None / BrownianTree / "
        "BrownianInterval(tol>0) / adaptive with drawn (T, dt, dtype), including grids whose last step is a rounding "
        "remainder and step counts around the 100-query warm-up. Oracle: every call returns (only ta>tb may raise "
        "RuntimeError), under a recursion limit of current depth + 250 frames, with len(cache) <= cache_size after every "
        "call, fewer than 2e5 tree nodes created and fewer than 4e6 tree-search steps per call. Non-trivial = more than 150 queries, or a query shorter "
        "than tol, or cache_size in {0,1}; distinct = distinct canonical case JSON.")
ASSUMPTIONS = ["non-termination is decided by a deterministic node-creation budget (2e5 per call), never by a clock",
               "stack growth is decided by running under sys.setrecursionlimit(depth_at_call + 250)",
               "cache occupancy is read from the private cache dict (read-only)"]
BUDGET = {
    "quick": {"examples": 160, "shards": 16, "case_timeout": 120, "wall_budget": 300},
    "thorough": {"examples": 6400, "shards": 16, "case_timeout": 600, "wall_budget": 2400},
}
FUZZ = {"quick": dict(runs=600, procs=2, wall_s=90), "thorough": dict(runs=40000, procs=16, wall_s=900)}
TOLERANCES = {"recursion_headroom_frames": 250, "node_budget_per_call": 200000}
HEADROOM = 250
NODE_BUDGET = 200000


@st.composite
def _history_case(draw, tier):
    cfg = draw(history.configs(wrappers=("interval", "interval", "interval", "reverse", "reverse2", "path", "tree"),
                               max_pieces=20000, lattice=False))
    big = tier == "thorough"
    ops = draw(history.op_lists(cfg, min_ops=2, max_ops=24 if big else 12, max_sweep=150 if big else 60,
                                allow_point=True))
    # adversarial raw queries: shorter than tol, 1 ulp long, ending exactly at t1
    extra = []
    span = cfg["t1"] - cfg["t0"]
    for _ in range(draw(st.integers(0, 4))):
        base = cfg["t0"] + span * draw(st.integers(0, 1000)) / 1000.0
        kind = draw(st.sampled_from(["ulp", "subtol", "tiny", "end_ulp", "pad100", "incell", "incell"]))
        if kind == "ulp":
            extra.append(["raw", base, min(math.nextafter(base, math.inf), cfg["t1"])])
        elif kind == "subtol":
            w = (cfg["tol"] or 1e-9) * draw(st.sampled_from([0.3, 0.5, 0.9, 1.0, 1.5]))
            extra.append(["raw", base, min(base + w, cfg["t1"])])
        elif kind == "incell":
            # both end points inside one cell of the library's rounding grid (10^-ndigits, which is coarser than tol when tol
            # is not a power of ten): the query collapses to a point at resolved times although it may be longer than tol
            cell = 10.0 ** -history.ndigits_of(cfg["tol"]) if cfg["tol"] > 0 else 1e-9
            c = round(base, history.ndigits_of(cfg["tol"])) if cfg["tol"] > 0 else base
            a_ = max(cfg["t0"], c - cell * draw(st.sampled_from([0.0, 0.1, 0.3, 0.45])))
            b_ = min(cfg["t1"], c + cell * draw(st.sampled_from([0.05, 0.2, 0.4, 0.45])))
            if a_ <= b_:
                extra.append(["raw", a_, b_])
        elif kind == "tiny":
            extra.append(["raw", base, min(base + span * 10.0 ** -draw(st.integers(6, 15)), cfg["t1"])])
        elif kind == "end_ulp":
            extra.append(["raw", math.nextafter(cfg["t1"], -math.inf), cfg["t1"]])
        else:
            n = draw(st.integers(98, 102))
            extra.append(["sweep", 0, max(1, cfg["grid"] // (n + 2)), n])
    pos = draw(st.integers(0, len(ops)))
    ops = ops[:pos] + extra + ops[pos:]
    return {"kind": "history", "cfg": cfg, "ops": ops,
            # a second live Brownian object (same configuration, another entropy) answering the same queries alternately
            "twin": draw(st.sampled_from([False, False, True]))}


@st.composite
def _sweep_case(draw, tier):
    cfg = draw(history.configs(wrappers=("interval",), allow_user=False, max_pieces=20000,
                               shapes=[[1], [2, 2], [1, 1]]))
    hi = 5 if tier == "thorough" else 3.9
    if cfg["cache_size"] in (0, 1, 2):     # every query recomputes its whole ancestor chain: keep the cost bounded
        hi = 4 if tier == "thorough" else 3.3
    n = int(10 ** draw(st.floats(3.0, hi)))
    back = draw(st.booleans())
    if draw(st.sampled_from([True, False, False])):
        # a dt hint much coarser than the steps actually taken: a whole run of steps then lives in one bottom piece of the
        # dependency tree, and walking back through it is the deepest chain of uncached ancestors the structure can have
        cfg["dt"] = (cfg["t1"] - cfg["t0"]) / draw(st.sampled_from([4, 16]))
        cfg["halfway"] = False
        cfg["tol"] = 0.0
        cfg["cache_size"] = draw(st.sampled_from([1, 5, 45]))
        n = min(n, 3000)
        back = True
    return {"kind": "sweep", "cfg": cfg, "n": n, "back": back,
            "frac": draw(st.sampled_from([1.0, 1.0, 0.5, 0.1])),
            # "backward only": the steps are taken from the far end towards t0 (a reverse-time solve on a fresh object)
            "backward_only": draw(st.sampled_from([False, False, True]))}


@st.composite
def _sdeint_case(draw, tier):
    hi = 5.0 if tier == "thorough" else 4.45
    mode = draw(st.sampled_from(["default", "default", "default", "tree", "tol", "adaptive"]))
    if mode in ("tree", "adaptive"):
        n = draw(st.integers(2, 400))
    else:
        n = draw(st.one_of(st.integers(95, 110), st.integers(2, 400),
                           st.floats(2.0, hi).map(lambda e: int(10 ** e))))
    dt = draw(st.one_of(st.sampled_from([0.1, 0.01, 0.001, 0.05, 0.013, 0.003, 1 / 3, 0.7, 0.25, 1e-4]),
                        st.floats(1e-4, 0.5)))
    t0 = draw(st.sampled_from([0.0, 0.0, 1.0, -0.5, 0.1]))
    t1_kind = draw(st.sampled_from(["n*dt", "n*dt", "t0+n*dt", "short", "long"]))
    if t1_kind == "n*dt":
        t1 = t0 + n * dt
    elif t1_kind == "t0+n*dt":
        t1 = t0
        for _ in range(min(n, 2000)):
            t1 += dt
        if n > 2000:
            t1 = t0 + n * dt
    elif t1_kind == "short":
        t1 = t0 + (n - 0.5) * dt
    else:
        t1 = t0 + (n + 0.25) * dt
    return {"kind": "sdeint", "mode": mode, "t0": t0, "t1": t1, "dt": dt, "n": n,
            "dtype": draw(st.sampled_from(["float64", "float64", "float32"])),
            "method": draw(st.sampled_from(["euler", "srk", "midpoint"])),
            "tol": draw(st.sampled_from(history.TOLS)),
            "entropy": draw(st.integers(0, 2 ** 31 - 2)), "n_out": draw(st.integers(0, 3))}


def strategy(tier):
    return st.one_of(_history_case(tier), _history_case(tier), _sweep_case(tier), _sdeint_case(tier),
                     _sdeint_case(tier))


def enumerate_cases(tier):
    """Systematic part: every tolerance of the generator (powers of ten and others) x {dyadic BrownianInterval,
    BrownianTree, ordinary tree} x queries placed inside one cell of the library's rounding grid with lengths below, at and
    above tol - the region where 'shorter than tol' and 'collapses at resolved times' differ."""
    import os
    import random
    seed = int(os.environ.get("VERIF_SEED", "1") or 1)
    idx = 0
    for tol in sorted(set(history.TOLS)):
        for wrapper, halfway in (("interval", True), ("tree", True), ("interval", False)):
            idx += 1
            rnd = random.Random(seed * 5003 + idx)
            nd = history.ndigits_of(tol)
            cell = 10.0 ** -nd
            cfg = {"wrapper": wrapper, "t0": 0.0, "t1": 1.0, "shape": [2], "levy": "none", "entropy": rnd.randrange(2 ** 31),
                   "dtype": "float64", "cache_size": 45, "dt": None, "tol": tol, "halfway": halfway, "user_W": False,
                   "user_H": False, "grid": 100}
            ops = []
            for _ in range(8):
                c = round(rnd.uniform(0.05, 0.95), nd)
                x, y = rnd.choice([0.0, 0.1, 0.3, 0.45]), rnd.choice([0.05, 0.2, 0.4, 0.45])
                ops.append(["raw", max(0.0, c - x * cell), min(1.0, c + y * cell)])
                ops.append(["raw", c, min(1.0, c + tol * rnd.choice([0.3, 0.9, 1.0, 1.5, 2.5]))])
            yield {"kind": "history", "cfg": cfg, "ops": ops}
    # a whole warm-up (the first 100+ queries) of empty or sub-tolerance queries, then ordinary ones: what the object learns
    # from the first queries must not make the next call diverge
    for wrapper, tol, width in (("interval", 0.0, 0.0), ("path", 0.0, 0.0), ("interval", 1e-10, 3e-11), ("interval", 0.0, 1e-13),
                                ("interval", 1e-6, 0.0)):
        for n_first in (99, 100, 101, 130):
            idx += 1
            rnd = random.Random(seed * 5003 + idx)
            c = round(rnd.uniform(0.1, 0.9), 6)
            ops = [["raw", c, c + width] for _ in range(n_first)] + [["raw", c, min(1.0, c + 0.05)], ["raw", 0.0, 1.0],
                                                                     ["raw", 0.2, 0.7]]
            cfg = {"wrapper": wrapper, "t0": 0.0, "t1": 1.0, "shape": [2], "levy": "none", "entropy": rnd.randrange(2 ** 31),
                   "dtype": "float64", "cache_size": None if wrapper == "path" else rnd.choice([45, 5]), "dt": None, "tol": tol,
                   "halfway": False, "user_W": False, "user_H": False, "grid": 100}
            yield {"kind": "history", "cfg": cfg, "ops": ops}


class _Guard:
    """Run the enclosed Brownian calls under a tight recursion limit and a node budget."""

    def __enter__(self):
        self.old = sys.getrecursionlimit()
        depth = len(inspect.stack(0))
        sys.setrecursionlimit(depth + HEADROOM)
        return self

    def __exit__(self, *exc):
        sys.setrecursionlimit(self.old)
        return False


def _cache_len(interval):
    c = getattr(interval, "_increment_and_space_time_levy_area_cache", None)
    try:
        return len(c)
    except TypeError:
        return 0


def _tensors_held(obj):
    """Number of distinct tensors kept alive by a Brownian object: everything reachable from it through containers and
    through instances of the library's own classes (tree nodes, caches, whatever slot or dict they are parked in)."""
    import gc
    seen, tensors, stack = set(), set(), [obj]
    while stack:
        o = stack.pop()
        if id(o) in seen:
            continue
        seen.add(id(o))
        if isinstance(o, torch.Tensor):
            tensors.add(id(o))
            continue
        mod = getattr(type(o), "__module__", "") or ""
        if isinstance(o, (dict, list, tuple, set, frozenset)) or mod.startswith("torchsde") or mod == "collections":
            stack.extend(gc.get_referents(o))
    return len(tensors)


def _classify(e, where_sig):
    if isinstance(e, WorkBudgetExceeded):
        return Fail("nontermination:node_budget", str(e), dict(where_sig, exc="WorkBudgetExceeded"))
    return crash_fail(e, where_sig)


_MAX_SEARCH = [0]
_MAX_HELD = [0]


def _run_queries(cfg, queries, sig, twin=False):
    """Returns (fail_or_None, checks, max_nodes_per_call, max_cache)."""
    import torchsde
    cs = cfg["cache_size"]
    checks = 0
    max_nodes = 0
    max_cache = 0
    with brownian_tools.node_budget(NODE_BUDGET) as counter, _Guard():
        max_search = _MAX_SEARCH
        try:
            bm, interval, meta = history.build(cfg, torchsde, torch)
            bm_twin = interval_twin = None
            if twin:
                bm_twin, interval_twin, _ = history.build(dict(cfg, entropy=cfg["entropy"] + 1), torchsde, torch)
        except Exception as e:  # noqa
            return _classify(e, dict(sig, phase="constructor")), checks, max_nodes, max_cache
        for idx, (a, b) in enumerate(queries):
            try:
                out = bm(a, b)
                if bm_twin is not None:
                    bm_twin(a, b)
                    n2 = _cache_len(interval_twin)
                    if cs is not None and n2 > cs:
                        return Fail("cache_bound", f"cache of the second object holds {n2} entries > cache_size={cs} after "
                                                   f"query #{idx}", sig), checks, max_nodes, max_cache
            except Exception as e:  # noqa
                f = _classify(e, dict(sig, phase="query"))
                f.msg += f" at query #{idx} ({a!r}, {b!r}) of {len(queries)}"
                return f, checks, max_nodes, max_cache
            checks += 1
            max_nodes = counter["max_per_call"]
            max_search[0] = counter["max_search_per_call"]
            w = out[0]
            if not bool(torch.isfinite(w).all()):
                return Fail("non_finite_value", f"query #{idx} ({a!r}, {b!r}) returned non-finite W", sig), checks, \
                    max_nodes, max_cache
            n = _cache_len(interval)
            max_cache = max(max_cache, n)
            if cs is not None and n > cs:
                return Fail("cache_bound", f"cache holds {n} entries > cache_size={cs} after query #{idx}", sig), \
                    checks, max_nodes, max_cache
        if cs is not None and queries:
            # "cached entries" wherever they are kept: a cache entry is a (W, H) pair, the top level keeps its own pair (and the
            # supplied / generated Levy noise): the object may keep 2 * cache_size + 8 tensors alive, however many queries
            held = _tensors_held(interval)
            _MAX_HELD[0] = max(_MAX_HELD[0], held - 2 * cs)
            checks += 1
            if held > 2 * cs + 8:
                return Fail("cache_bound:tensors_held", f"after {len(queries)} queries the Brownian object keeps {held} tensors "
                                                        f"alive with cache_size={cs} (a cache entry is a (W, H) pair: at most "
                                                        f"{2 * cs + 8} expected)", sig), checks, max_nodes, max_cache
    return None, checks, max_nodes, max_cache


def run_case(case):
    kind = case["kind"]
    if kind == "sdeint":
        return _run_sdeint(case)
    cfg = case["cfg"]
    sig = {"kind": kind, "cache_size": cfg["cache_size"], "halfway": cfg["halfway"], "tol>0": cfg["tol"] > 0,
           "dt_hint": cfg["dt"] is not None}
    if kind == "history":
        queries = history.expand(case)
    else:
        n = case["n"]
        t0, t1 = cfg["t0"], cfg["t1"]
        t1 = t0 + (t1 - t0) * case["frac"]
        h = (t1 - t0) / n
        pts = [t0 + k * h for k in range(n)] + [t1]
        if cfg["tol"] > 0:
            nd = history.ndigits_of(cfg["tol"])
            pts = [round(p, nd) for p in pts]
        queries = [(pts[k], pts[k + 1]) for k in range(n)]
        if case.get("backward_only"):
            queries = queries[::-1]
        if case["back"]:
            queries = queries + queries[::-1]
        if case.get("wide", True):
            # and finally intervals spanning everything that was stepped through (one query over a long spine of small
            # pieces), from both ends
            queries = queries + [(pts[0], pts[-1]), (pts[0], pts[len(pts) // 2]), (pts[len(pts) // 3], pts[-1])]
    fail, checks, max_nodes, max_cache = _run_queries(cfg, queries, sig, twin=bool(case.get("twin")))
    tol = cfg["tol"]
    iv = [(a, b) for a, b in queries if a is not None]
    subtol = any(0 < b - a < tol for a, b in iv) if tol > 0 else any(0 < b - a < 1e-12 for a, b in iv)
    labels = [f"kind={kind}", f"cache={cfg['cache_size']}", f"wrapper={cfg['wrapper']}"]
    if cfg["dt"] is not None:
        labels.append("dt_hint")
    if tol > 0:
        labels.append("tol>0")
    if cfg["halfway"]:
        labels.append("dyadic")
    if subtol:
        labels.append("sub_tolerance_query")
    if len(queries) > 150:
        labels.append("past_warmup")
    if case.get("twin"):
        labels.append("two_live_objects_alternating")
    if case.get("backward_only"):
        labels.append("backward_only_sweep")
    nontrivial = len(queries) > 150 or subtol or cfg["cache_size"] in (0, 1)
    return Result(nontrivial=nontrivial, labels=labels, checks=checks, fail=fail,
                  metrics={"max_nodes_created_per_call": max_nodes, "max_cache_entries": max_cache,
                           "max_queries": len(queries), "max_search_steps_per_call": _MAX_SEARCH[0],
                           "max_tensors_held_minus_2x_cache_size": _MAX_HELD[0]})


class _TrivialSDE(torch.nn.Module):
    def __init__(self, sde_type):
        super().__init__()
        self.noise_type = "diagonal"
        self.sde_type = sde_type

    def f(self, t, y):
        return -0.5 * y

    def g(self, t, y):
        return 0.1 + 0.0 * y


def _run_sdeint(case):
    import torchsde
    dtype = getattr(torch, case["dtype"])
    method = case["method"]
    sde = _TrivialSDE("stratonovich" if method == "midpoint" else "ito")
    y0 = torch.ones(1, 1, dtype=dtype)
    t0, t1 = case["t0"], case["t1"]
    n_out = case["n_out"]
    ts_list = [t0] + [t0 + (t1 - t0) * (k + 1) / (n_out + 1) for k in range(n_out)] + [t1]
    ts = torch.tensor(ts_list, dtype=dtype)
    if not all(float(a) < float(b) for a, b in zip(ts[:-1], ts[1:])):
        return Result(labels=["kind=sdeint", "degenerate_ts"])
    mode = case["mode"]
    levy = "space-time" if method == "srk" else "none"
    sig = {"kind": "sdeint", "mode": mode}
    kw = {}
    try:
        with brownian_tools.node_budget(NODE_BUDGET) as counter:
            if mode == "tree":
                if method == "srk":
                    method = "euler"
                bm = torchsde.BrownianTree(t0=float(ts[0]), w0=torch.zeros(1, 1, dtype=dtype), t1=float(ts[-1]),
                                           entropy=case["entropy"], tol=case["tol"])
            elif mode == "tol":
                bm = torchsde.BrownianInterval(t0=float(ts[0]), t1=float(ts[-1]), size=(1, 1), dtype=dtype,
                                               entropy=case["entropy"], tol=case["tol"],
                                               levy_area_approximation=levy)
            else:
                bm = None
            if mode == "adaptive":
                kw = dict(adaptive=True, rtol=1e-2, atol=1e-3, dt_min=case["dt"] * 0.1)
            with _Guard():
                with torch.no_grad():
                    ys = torchsde.sdeint(sde, y0, ts, bm=bm, method=method, dt=case["dt"], **kw)
            nodes = counter["max_per_call"]
    except Exception as e:  # noqa
        f = _classify(e, sig)
        f.msg += f" in sdeint(ts=[{t0!r}..{t1!r}], dt={case['dt']!r}, mode={mode}, method={method}, dtype={case['dtype']})"
        return Result(nontrivial=True, labels=["kind=sdeint", f"mode={mode}", "crash"], fail=f)
    steps = (t1 - t0) / case["dt"]
    ok = bool(torch.isfinite(ys).all())
    fail = None if ok else Fail("non_finite_value", "sdeint returned non-finite values", sig)
    labels = ["kind=sdeint", f"mode={mode}", f"dtype={case['dtype']}"]
    if steps > 150:
        labels.append("past_warmup")
    if 95 <= steps <= 110:
        labels.append("around_warmup_boundary")
    return Result(nontrivial=steps > 100 or mode in ("tree", "tol"), labels=labels, checks=1, fail=fail,
                  metrics={"max_sdeint_steps": steps, "max_nodes_created_per_call": nodes})


MACHINE_CLAUSES = ("crash", "cache_bound")


def finalize(tier, seed, stats):
    """Second engine: Hypothesis rule-based state machine over the same Brownian object (vp/machine.py)."""
    import torchsde
    from .. import machine
    n, steps = (40, 40) if tier == "quick" else (1200, 80)
    viol, cov = machine.run(torchsde, ID, seed, n, steps, shrink=(tier == "thorough"))
    if viol is not None and viol["clause"].startswith(MACHINE_CLAUSES):
        stats.violations.append({"case": viol["case"], "shrunk": True,
                                 "fail": {"clause": "state_machine:" + viol["clause"], "msg": viol["msg"], "sig": {}}})
    elif viol is not None:
        cov["state_machine_stopped_by_other_property_clause"] = viol["clause"]
    return cov
