"""C11 - adjoint SDE vector fields are the exact vector-Jacobian products."""
import torch
from hypothesis import strategies as st

from .. import sdes
from ..core import Fail, Result

ID = "C11"
RULE = ("case = generic SDE (2 calculi x 4 noise types, drawn sizes, time-dependent or not, with a parameter the SDE never "
        "uses) x augmented state (y, a) x vectors v, v2 x time x grad mode. Oracle built independently of the hand-derived "
        "formulas: the backward Stratonovich augmented fields F = (-f_s, a^T df_s/dy, a^T df_s/dtheta) and G_k = (-g_k, "
        "a^T dg_k/dy, a^T dg_k/dtheta) from plain autograd VJPs (themselves cross-checked by central differences), and - "
        "for Ito, non-additive noise - the general Stratonovich->Ito conversion 1/2 sum_k DG_k[G_k] of the whole augmented "
        "field by central differences. Compared with AdjointSDE.f, .g_prod, .f_and_g_prod and (diagonal noise) "
        ".g_prod_and_gdg_prod vs sum_k v2_k DG_k[G_k]. Graph discipline: under no_grad the outputs carry no graph; with "
        "grad enabled the derivative of a random projection of the output w.r.t. the augmented state matches central "
        "differences. Non-trivial = state dim >= 2 or batch >= 2, and the SDE is not additive-Stratonovich-trivial; "
        "distinct = distinct canonical case JSON.")
ASSUMPTIONS = ["torch.autograd.grad / autograd.functional.jvp are trusted for first derivatives (cross-checked by central "
               "differences at 1e-6); second-order terms come from central differences with eps=1e-5"]
BUDGET = {
    "quick": {"examples": 160, "shards": 4, "case_timeout": 60, "wall_budget": 240},
    "thorough": {"examples": 4000, "shards": 16, "case_timeout": 120, "wall_budget": 1800},
}
FUZZ = {"thorough": dict(runs=20000, procs=8, wall_s=600)}
TOLERANCES = {"fields": "1e-7 * scale", "fd_crosscheck": "1e-6 * scale", "second_derivative": "1e-5 * scale"}
EPS = 1e-5


@st.composite
def _case(draw, tier):
    spec = draw(sdes.generic_specs(max_d=3, max_m=3, max_batch=2))
    if spec["noise_type"] == "diagonal":
        # unit multiplicative noise: g(t, y) returns its input tensor itself (a leaf for the internal autograd calls)
        spec = dict(spec, g_alias=draw(st.sampled_from([False, False, False, True])))
    return {"spec": spec, "seed": draw(st.integers(0, 2 ** 31 - 1)), "t": draw(st.sampled_from([0.0, 0.4, -0.7, 1.3])),
            "grad_enabled": draw(st.booleans()),
            # one AdjointSDE object serves a whole backward pass: optionally it is first evaluated at a later forward time,
            # where (regime switch) the diffusion is a constant without state or parameters, and only then at the point
            # under test - what it returns there must not depend on what it was asked before
            "warmup_regime": draw(st.sampled_from([None, None, "constant_diffusion_first", "same_regime_first",
                                                    "other_state_same_time_between"])),
            # the evaluation point may be one where the diffusion vanishes exactly (g(t,y) - g(t,0) at y = 0) while its
            # derivative does not; the adjoint parameter list may be empty (adjoint_params=() is documented)
            "g_zero_point": draw(st.sampled_from([False, False, False, True])),
            "no_params": draw(st.sampled_from([False, False, False, True]))}


@st.composite
def _far_case(draw, tier):
    """Single-precision state and parameters, double-precision time far from the origin, coefficients oscillating in time: the
    forward coefficients must be evaluated at the time the solver was given, not at that time rounded to the state's dtype."""
    return {"kind": "far_time_f32", "noise_type": draw(st.sampled_from(["diagonal", "additive", "scalar", "general"])),
            "t": draw(st.sampled_from([2000.00003, -1500.70007, 812.3000119, 65536.123456, 0.25])),
            "omega": draw(st.sampled_from([40.0, 25.0, 7.0])), "seed": draw(st.integers(0, 2 ** 31 - 1)),
            "B": draw(st.integers(1, 3)), "d": draw(st.integers(1, 3)), "grad_enabled": draw(st.booleans())}


def strategy(tier):
    return st.one_of(_case(tier), _case(tier), _case(tier), _case(tier), _far_case(tier))


class OscSDE(torch.nn.Module):
    """Stratonovich SDE with coefficients oscillating in time (float32 parameters)."""

    def __init__(self, noise_type, d, omega, seed):
        super().__init__()
        self.noise_type, self.sde_type, self.omega = noise_type, "stratonovich", omega
        g = torch.Generator().manual_seed(seed)
        self.a = torch.nn.Parameter(torch.randn(d, generator=g) * 0.8)
        self.b = torch.nn.Parameter(torch.randn(d, generator=g) * 0.8)
        self.c = torch.nn.Parameter(0.5 + torch.rand(d, 2, generator=g))
        self.m = {"diagonal": d, "scalar": 1}.get(noise_type, 2)

    def f(self, t, y):
        return self.a * torch.sin(self.omega * t) * torch.tanh(y) + self.b * torch.cos(self.omega * t)

    def g(self, t, y):
        osc = 1.0 + 0.5 * torch.cos(self.omega * t + 0.4)
        if self.noise_type == "diagonal":
            return self.c[:, 0] * osc * (1.0 + 0.3 * torch.sin(y))
        if self.noise_type == "additive":
            return (self.c * osc).unsqueeze(0).expand(y.size(0), -1, -1).to(y.dtype)
        full = (self.c * osc).unsqueeze(0) * (1.0 + 0.3 * torch.sin(y)).unsqueeze(-1)
        return (full[..., :1] if self.noise_type == "scalar" else full).to(y.dtype)


def _run_far(case):
    from torchsde._core import adjoint_sde, base_sde
    nt, B, d = case["noise_type"], case["B"], case["d"]
    sde = OscSDE(nt, d, case["omega"], case["seed"])
    m = sde.m
    gen = torch.Generator().manual_seed(case["seed"] + 1)
    y = torch.randn(B, d, generator=gen)
    a = torch.randn(B, d, generator=gen)
    v = torch.randn(B, m, generator=gen)
    params = list(sde.parameters())
    shapes = [y.size(), a.size()] + [p.size() for p in params]
    adj = adjoint_sde.AdjointSDE(base_sde.ForwardSDE(sde), params, shapes)
    t_fwd = torch.tensor(case["t"], dtype=torch.float64)
    t_adj = torch.tensor(-case["t"], dtype=torch.float64)

    # oracle in double precision: the same module evaluated in float64 at the exact time
    sde64 = OscSDE(nt, d, case["omega"], case["seed"]).double()
    orc = Oracle(sde64, list(sde64.parameters()), t_fwd)
    y64, a64, v64 = y.double(), a.double(), v.double()
    want_f = _flat(orc.F(y64, a64))
    Gv = None
    for k in range(orc.n_cols(y64)):
        Gk = orc.G(k, y64, a64)
        Gk_w = orc.G(k, y64, a64 * v64[:, k:k + 1])
        contrib = [Gk[0] * v64[:, k:k + 1]] + Gk_w[1:]
        Gv = contrib if Gv is None else [p + q for p, q in zip(Gv, contrib)]
    want_g = _flat(Gv)
    z = _flat([y, a] + [torch.zeros_like(p) for p in params]).unsqueeze(0)
    ctx = torch.enable_grad() if case["grad_enabled"] else torch.no_grad()
    with ctx:
        f_out = adj.f(t_adj, z.clone())
        g_out = adj.g_prod(t_adj, z.clone(), v.clone())
        f2, g2 = adj.f_and_g_prod(t_adj, z.clone(), v.clone())
    sig = {"noise_type": nt, "sde_type": "stratonovich", "kind": "far_time_f32"}
    checks, worst = 0, 0.0
    for name, got, want, clause in (("AdjointSDE.f", f_out, want_f, "adjoint_drift"),
                                    ("AdjointSDE.g_prod", g_out, want_g, "adjoint_diffusion_prod"),
                                    ("AdjointSDE.f_and_g_prod[f]", f2, want_f, "adjoint_drift"),
                                    ("AdjointSDE.f_and_g_prod[g_prod]", g2, want_g, "adjoint_diffusion_prod")):
        checks += 1
        e = float((got.detach().double().reshape(-1) - want).abs().max()) / max(1.0, float(want.abs().max()))
        worst = max(worst, e)
        if not e <= 2e-5:
            return Result(nontrivial=True, checks=checks, fail=Fail(
                clause, f"{name} at forward time {case['t']!r} (float64) with a float32 state differs from the prescribed field "
                        f"evaluated at that time: rel {e:.3e} (float32 rounding is ~1e-7; coefficients oscillate with "
                        f"omega={case['omega']})", sig))
    return Result(nontrivial=abs(case["t"]) > 100, labels=["kind=far_time_f32", f"stratonovich/{nt}",
                                                           "grad_enabled" if case["grad_enabled"] else "no_grad"],
                  checks=checks, metrics={"relerr/far_time_f32": worst})


def enumerate_cases(tier):
    """Every (calculus, noise type, grad mode) x {plain point, point where the diffusion vanishes, empty parameter list,
    evaluation after a regime switch} once."""
    import os
    import random
    seed = int(os.environ.get("VERIF_SEED", "1") or 1)
    idx = 0
    for sde_type in sdes.SDE_TYPES:
        for nt in sdes.NOISE_TYPES:
            for grad in (False, True):
                for flavour in ("plain", "g_zero_point", "no_params", "constant_diffusion_first", "g_alias",
                                "other_state_same_time_between"):
                    if flavour == "g_alias" and nt != "diagonal":
                        continue
                    idx += 1
                    rnd = random.Random(seed * 9001 + idx)
                    spec = {"sde_type": sde_type, "noise_type": nt, "d": 2, "m": 1 if nt == "scalar" else 2, "batch": 2,
                            "hidden": 3, "seed": rnd.randrange(2 ** 31), "tdep": True, "fscale": 1.0, "gscale": 0.7,
                            "dtype": "float64"}
                    if flavour == "g_alias":
                        spec["g_alias"] = True
                    yield {"spec": spec, "seed": rnd.randrange(2 ** 31), "t": rnd.choice([0.0, 0.4, -0.7]),
                           "grad_enabled": grad, "g_zero_point": flavour == "g_zero_point",
                           "no_params": flavour == "no_params",
                           "warmup_regime": flavour if flavour in ("constant_diffusion_first",
                                                                   "other_state_same_time_between") else None}
    for k, nt in enumerate(("diagonal", "additive", "scalar", "general")):
        for t in (2000.00003, -1500.70007):
            yield {"kind": "far_time_f32", "noise_type": nt, "t": t, "omega": 40.0, "seed": seed * 31 + k, "B": 2, "d": 2,
                   "grad_enabled": k % 2 == 0}


class Oracle:
    """Backward Stratonovich augmented fields of the forward SDE, assembled from plain autograd."""

    def __init__(self, sde, params, t_fwd):
        self.sde, self.params, self.t = sde, params, t_fwd
        self.nt, self.ito = sde.noise_type, sde.sde_type == "ito"

    def g_cols(self, y):
        g = self.sde.g(self.t, y)
        if self.nt == "diagonal":
            return [torch.diag_embed(g)[..., k] for k in range(g.size(-1))]
        return [g[..., k] for k in range(g.size(-1))]

    def f_strat(self, y):
        f = self.sde.f(self.t, y)
        if self.ito and self.nt != "additive":
            for k in range(len(self.g_cols(y))):
                def gk(x, k=k):
                    return self.g_cols(x)[k]
                _, jv = torch.autograd.functional.jvp(gk, y, gk(y), create_graph=True)
                f = f - 0.5 * jv
        return f

    def _vjps(self, fn, y, a):
        y = y.detach().requires_grad_(True)
        with torch.enable_grad():
            out = fn(y)
            grads = torch.autograd.grad(out, [y] + self.params, grad_outputs=a, allow_unused=True)
        grads = [torch.zeros_like(p) if g_ is None else g_ for g_, p in zip(grads, [y] + self.params)]
        return out.detach(), grads

    def F(self, y, a):
        out, grads = self._vjps(self.f_strat, y, a)
        return [-out] + grads

    def G(self, k, y, a):
        out, grads = self._vjps(lambda x: self.g_cols(x)[k], y, a)
        return [-out] + grads

    def n_cols(self, y):
        return len(self.g_cols(y))

    def DG_G(self, k, y, a):
        Gk = self.G(k, y, a)
        plus = self.G(k, y + EPS * Gk[0], a + EPS * Gk[1])
        minus = self.G(k, y - EPS * Gk[0], a - EPS * Gk[1])
        return [(p - m) / (2 * EPS) for p, m in zip(plus, minus)]


def _flat(parts):
    return torch.cat([p.reshape(-1) for p in parts])


def run_case(case):
    from torchsde._core import adjoint_sde, base_sde
    if case.get("kind") == "far_time_f32":
        return _run_far(case)
    spec = case["spec"]
    warm = case.get("warmup_regime")
    if warm == "constant_diffusion_first":
        spec = dict(spec, gswitch=case["t"] + 0.5)       # the point under test lies before the switch
    sde = sdes.build_generic(spec)
    nt, ito = spec["noise_type"], spec["sde_type"] == "ito"
    B, d, m = spec["batch"], spec["d"], spec["m"]
    gen = torch.Generator().manual_seed(case["seed"])
    y = torch.randn(B, d, generator=gen, dtype=torch.float64)
    gzp = bool(case.get("g_zero_point")) and nt != "additive" and not warm
    if gzp:
        base_ = sde

        class _GZero(torch.nn.Module):
            def __init__(self):
                super().__init__()
                self.base = base_
                self.noise_type, self.sde_type, self.spec = base_.noise_type, base_.sde_type, base_.spec

            def f(self, t, yy):
                return self.base.f(t, yy)

            def g(self, t, yy):
                return self.base.g(t, yy) - self.base.g(t, torch.zeros_like(yy))
        sde = _GZero()
        y = torch.zeros(B, d, dtype=torch.float64)
    a = torch.randn(B, d, generator=gen, dtype=torch.float64)
    v = torch.randn(B, m, generator=gen, dtype=torch.float64)
    v2 = torch.randn(B, m, generator=gen, dtype=torch.float64)
    params = [] if case.get("no_params") else [p for p in sde.parameters()]
    shapes = [y.size(), a.size()] + [p.size() for p in params]
    fwd = base_sde.ForwardSDE(sde)
    adj = adjoint_sde.AdjointSDE(fwd, params, shapes)
    t_adj = torch.tensor(-case["t"], dtype=torch.float64)     # the adjoint runs in reversed time: forward time = -t
    t_fwd = torch.tensor(case["t"], dtype=torch.float64)
    orc = Oracle(sde, params, t_fwd)
    sig = {"noise_type": nt, "sde_type": spec["sde_type"]}
    checks = 0
    worst = {}

    def y_aug_leaf(requires_grad=False):
        z = _flat([y, a] + [torch.zeros_like(p) for p in params]).unsqueeze(0).clone()
        return z.requires_grad_(requires_grad)

    def cmp(name, got, want, tol, clause):
        nonlocal checks
        checks += 1
        got = got.detach().reshape(-1)
        scale = max(1.0, float(want.abs().max()))
        e = float((got - want).abs().max()) / scale
        worst[name] = max(worst.get(name, 0.0), e)
        if not e <= tol:
            idx = int((got - want).abs().argmax())
            part = "state" if idx < B * d else ("adjoint" if idx < 2 * B * d else "parameter")
            return Result(nontrivial=True, checks=checks, metrics=worst, fail=Fail(
                clause, f"{name} differs from the prescribed field in its {part} part: rel {e:.3e} "
                        f"({spec['sde_type']}/{nt}, d={d}, m={m})", dict(sig, part=part)))
        return None

    # ---- oracle fields ------------------------------------------------------------------------------------------
    ncol = orc.n_cols(y)
    F = orc.F(y, a)
    if ito and nt != "additive":
        corr = [orc.DG_G(k, y, a) for k in range(ncol)]
        F_ito = [fp + 0.5 * sum(c[i] for c in corr) for i, fp in enumerate(F)]
    else:
        F_ito = F
    want_f = _flat(F_ito)
    Gv = None
    for k in range(ncol):
        Gk = orc.G(k, y, a)
        # parameters are shared across the batch: weight the per-sample contribution through the adjoint instead
        Gk_w = orc.G(k, y, a * v[:, k:k + 1])
        contrib = [Gk[0] * v[:, k:k + 1]] + Gk_w[1:]
        Gv = contrib if Gv is None else [p + q for p, q in zip(Gv, contrib)]
    want_g = _flat(Gv)

    # ---- first-order VJP cross-check by central differences (independent of autograd) ------------------------------
    dirn = torch.randn(B, d, generator=gen, dtype=torch.float64)
    with torch.no_grad():
        fd = ((a * orc.f_strat(y + 1e-6 * dirn)).sum() - (a * orc.f_strat(y - 1e-6 * dirn)).sum()) / 2e-6 \
            if not (ito and nt != "additive") else None
    if fd is not None:
        checks += 1
        e = abs(float(fd) - float((F[1] * dirn).sum())) / max(1.0, abs(float(fd)))
        worst["fd_crosscheck"] = e
        if not e <= 1e-6:
            return Result(nontrivial=True, checks=checks, fail=Fail(
                "oracle_selfcheck", f"autograd VJP and central differences disagree ({e:.3e}) - oracle defect", sig))

    ctx = torch.enable_grad() if case["grad_enabled"] else torch.no_grad()
    between = warm == "other_state_same_time_between"
    other = torch.randn(y_aug_leaf().shape, generator=gen, dtype=torch.float64)

    def disturb(which):
        """One evaluation at the same time but another augmented state between two checked evaluations (what a solver
        with several stages per step does): the next answer must belong to the point it is asked at."""
        if between:
            with ctx:
                if which == "f":
                    adj.f(t_adj, (y_aug_leaf() + other))
                else:
                    adj.g_prod(t_adj, (y_aug_leaf() + other), v2.clone())
    if warm and not between:
        t_warm = torch.tensor(-(case["t"] + 1.0), dtype=torch.float64)      # forward time t + 1 (after the switch, if any)
        with ctx:
            adj.f(t_warm, y_aug_leaf())
            adj.g_prod(t_warm, y_aug_leaf(), v.clone())
            adj.f_and_g_prod(t_warm, y_aug_leaf(), v.clone())
            if nt == "diagonal":
                adj.g_prod_and_gdg_prod(t_warm, y_aug_leaf(), v.clone(), v2.clone())
    disturb("g")
    with ctx:
        f_out = adj.f(t_adj, y_aug_leaf())
    disturb("f")
    with ctx:
        g_out = adj.g_prod(t_adj, y_aug_leaf(), v.clone())
    disturb("f")
    with ctx:
        f2_out, g2_out = adj.f_and_g_prod(t_adj, y_aug_leaf(), v.clone())
    r = cmp("AdjointSDE.f", f_out, want_f, 1e-7, "adjoint_drift") or \
        cmp("AdjointSDE.g_prod", g_out, want_g, 1e-7, "adjoint_diffusion_prod") or \
        cmp("AdjointSDE.f_and_g_prod[f]", f2_out, want_f, 1e-7, "adjoint_drift") or \
        cmp("AdjointSDE.f_and_g_prod[g_prod]", g2_out, want_g, 1e-7, "adjoint_diffusion_prod")
    if r:
        return r
    if not case["grad_enabled"]:
        checks += 1
        for name, out in (("f", f_out), ("g_prod", g_out), ("f_and_g_prod", f2_out), ("f_and_g_prod", g2_out)):
            if out.requires_grad or out.grad_fn is not None:
                return Result(nontrivial=True, checks=checks, fail=Fail(
                    "graph_leak_under_no_grad", f"AdjointSDE.{name} returns a tensor attached to an autograd graph "
                                                f"although gradients are disabled", sig))
    if nt == "diagonal":
        disturb("f")
        with ctx:
            gp_out, gdg_out = adj.g_prod_and_gdg_prod(t_adj, y_aug_leaf(), v.clone(), v2.clone())
        want_gdg = None
        for k in range(ncol):
            # weight by v2_k per sample: state/adjoint parts directly; parameter part through a weighted adjoint
            dg_w = _dgg_weighted(orc, k, y, a, v2[:, k:k + 1])
            want_gdg = dg_w if want_gdg is None else [p + q for p, q in zip(want_gdg, dg_w)]
        r = cmp("AdjointSDE.g_prod_and_gdg_prod[g_prod]", gp_out, want_g, 1e-7, "adjoint_diffusion_prod") or \
            cmp("AdjointSDE.g_prod_and_gdg_prod[gdg]", gdg_out, _flat(want_gdg), 1e-6, "adjoint_milstein_term")
        if r:
            return r
        if not case["grad_enabled"] and (gdg_out.requires_grad or gp_out.requires_grad):
            return Result(nontrivial=True, checks=checks, fail=Fail(
                "graph_leak_under_no_grad", "g_prod_and_gdg_prod output attached to a graph under no_grad", sig))
    # ---- differentiability when grad is enabled --------------------------------------------------------------------
    if case["grad_enabled"]:
        proj = torch.randn(want_f.numel(), generator=gen, dtype=torch.float64)
        zdir = torch.randn(2 * B * d, generator=gen, dtype=torch.float64)

        def scalar(z):
            return (adj.f(t_adj, z).reshape(-1) * proj).sum() + (adj.g_prod(t_adj, z, v.clone()).reshape(-1) * proj).sum()

        z0 = y_aug_leaf(True)
        with torch.enable_grad():
            s = scalar(z0)
            if not s.requires_grad:
                return Result(nontrivial=True, checks=checks, fail=Fail(
                    "not_differentiable_under_grad", "AdjointSDE.f/g_prod outputs do not require grad although "
                                                     "gradients are enabled", sig))
            gz, = torch.autograd.grad(s, z0)
        full_dir = torch.cat([zdir, torch.zeros(z0.numel() - zdir.numel(), dtype=torch.float64)]).unsqueeze(0)
        with torch.no_grad():
            zp = (y_aug_leaf() + 1e-5 * full_dir)
            zm = (y_aug_leaf() - 1e-5 * full_dir)
        with torch.enable_grad():
            fdv = (float(scalar(zp.clone())) - float(scalar(zm.clone()))) / 2e-5
        an = float((gz * full_dir).sum())
        checks += 1
        e = abs(an - fdv) / max(1.0, abs(fdv))
        worst["second_derivative"] = e
        if not e <= 1e-5:
            return Result(nontrivial=True, checks=checks, metrics=worst, fail=Fail(
                "second_derivative", f"derivative of the adjoint fields w.r.t. the augmented state ({an:.8g}) differs "
                                     f"from central differences ({fdv:.8g})", sig))
    labels = [f"{spec['sde_type']}/{nt}", "grad_enabled" if case["grad_enabled"] else "no_grad"] + \
        ([f"warmup={warm}"] if warm else []) + (["diffusion_vanishes_at_point"] if gzp else []) + \
        (["empty_adjoint_params"] if case.get("no_params") else []) + \
        (["g_returns_its_input_tensor"] if spec.get("g_alias") and nt == "diagonal" else [])
    return Result(nontrivial=(d >= 2 or B >= 2), labels=labels, checks=checks,
                  metrics={f"relerr/{k}": v_ for k, v_ in worst.items()})


def _dgg_weighted(orc, k, y, a, w):
    """sum over the batch of w_b * DG_k[G_k] (state/adjoint parts per sample, parameter part summed)."""
    Gk = orc.G(k, y, a)

    def Gw(yy, aa):
        out, grads = orc._vjps(lambda x: orc.g_cols(x)[k], yy, aa)
        return out, grads

    # parameter part: d/deps of sum_b w_b a_b(eps)^T dg_k/dtheta(y_b(eps))  -> weight the adjoint by w
    plus_o, plus_g = Gw(y + EPS * Gk[0], (a + EPS * Gk[1]))
    minus_o, minus_g = Gw(y - EPS * Gk[0], (a - EPS * Gk[1]))
    state = (-(plus_o) + minus_o) / (2 * EPS) * w
    adjp = (plus_g[0] - minus_g[0]) / (2 * EPS) * w
    _, plus_gw = Gw(y + EPS * Gk[0], (a + EPS * Gk[1]) * w)
    _, minus_gw = Gw(y - EPS * Gk[0], (a - EPS * Gk[1]) * w)
    pars = [(p - q) / (2 * EPS) for p, q in zip(plus_gw[1:], minus_gw[1:])]
    return [state, adjp] + pars
