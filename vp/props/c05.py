"""C05 - repeated queries are bit-identical whatever happened in between."""
import torch
from hypothesis import strategies as st

from .. import history
from ..core import Fail, Result

ID = "C05"
RULE = ("case = Brownian configuration (shape, Levy mode, cache_size in {0,1,2,5,45,None}, dt hint or inferred, tol, "
        "dyadic mode, wrapper, dtype, entropy) + generated query history (queries, forward/backward sweeps, zooms, "
        "rejected-trial triples, re-queries); every query is compared bit-for-bit (W, U, A) with the tensors returned "
        "the first time, and at the end every distinct query is re-issued in a drawn order, then once more with a drawn subset "
        "of the return flags (W alone / (W,U) / (W,A)), which must give the same tensors; and every tensor object handed out must "
        "still hold the values it held when it was returned. Second case kind: "
        "sdeint_adjoint through a recording proxy - every backward query that coincides with a forward interval must "
        "return the forward tensors. Non-trivial = some repeat is separated from its first occurrence by more than "
        "cache_size other distinct queries or by a dependency-tree rebuild (history kind), or the backward pass "
        "re-issued >= 3 forward intervals (adjoint kind); distinct = distinct canonical case JSON.")
ASSUMPTIONS = ["torch.equal on CPU tensors is the bit-identity oracle",
               "tree rebuilds are observed through the private _tree_dt slot (read-only)"]
BUDGET = {
    "quick": {"examples": 250, "shards": 4, "case_timeout": 60, "wall_budget": 240},
    "thorough": {"examples": 6000, "shards": 16, "case_timeout": 120, "wall_budget": 1500},
}
FUZZ = {"quick": dict(runs=600, procs=2, wall_s=90), "thorough": dict(runs=40000, procs=16, wall_s=900)}
TOLERANCES = {"W,U,A": "bit-identical (torch.equal)"}


@st.composite
def _history_case(draw, tier):
    cfg = draw(history.configs(wrappers=("interval", "interval", "interval", "reverse", "reverse2", "path", "tree")))
    big = tier == "thorough"
    ops = draw(history.op_lists(cfg, min_ops=2, max_ops=20 if big else 12, max_sweep=120 if big else 50,
                                allow_point=True))
    return {"kind": "history", "cfg": cfg, "ops": ops, "perm": draw(st.integers(0, 2 ** 31 - 1)),
            # a second Brownian object with the same entropy and options is built (and asked for the whole interval) at a drawn
            # point of the history: what the first object returns must not change
            "twin_at": draw(st.sampled_from([None, None, None, 1, 1, 2, 5, 20]))}


@st.composite
def _points_case(draw, tier):
    """BrownianPath / BrownianTree used the way their docs show them: values at single times, bm(t), evaluated in a drawn
    order with returns to earlier times (interleaved with a few increments)."""
    cfg = draw(history.configs(wrappers=("path", "path", "tree")))
    cfg["shape"] = draw(st.sampled_from([[64], [16, 3], [7, 5], [200], [3], [2, 2]]))
    n = cfg["grid"]
    pts = draw(st.lists(st.integers(0, n), min_size=3, max_size=8, unique=True))
    ops = [["pt", k] for k in pts]
    for _ in range(draw(st.integers(3, 10))):
        if draw(st.sampled_from([True, True, True, False])):
            ops.append(["pt", draw(st.sampled_from(pts))])
        else:
            a_ = draw(st.integers(0, n - 1))
            ops.append(["q", a_, draw(st.integers(a_ + 1, n))])
    return {"kind": "history", "cfg": cfg, "ops": ops, "perm": draw(st.integers(0, 2 ** 31 - 1)), "twin_at": None}


def strategy(tier):
    from . import c05_adjoint
    return st.one_of(_history_case(tier), _history_case(tier), _history_case(tier), _points_case(tier),
                     c05_adjoint.cases(tier))


def enumerate_cases(tier):
    """Systematic part: the 'rejected trial' pattern at every cache age. A forward sweep of cache_size + 5 steps (so that the
    next interval sits deeper in the tree than the cache is long), an interval N, its two halves, f ever shorter intervals
    at its left end, then N again - for every f in 0..cache_size+1, i.e. for every relative age of N and of its halves in the
    bounded cache (N still cached / only its halves cached / nothing cached)."""
    import os
    import random
    seed = int(os.environ.get("VERIF_SEED", "1") or 1)
    idx = 0
    for cs in (1, 2, 3, 5, 7, 45):
        fs = range(0, cs + 2) if cs <= 7 else range(cs - 5, cs + 3)
        for levy in ("none", "space-time", "davie"):
            for f in fs:
                idx += 1
                rnd = random.Random(seed * 3001 + idx)
                depth = cs + 5
                h = 0.5 / depth
                a, b = depth * h, 0.9
                m = 0.5 * (a + b)
                ops = [["raw", k * h, (k + 1) * h] for k in range(depth)] + [["raw", a, b], ["raw", a, m], ["raw", m, b]] + \
                    [["raw", a, a + (m - a) / 2 ** j] for j in range(1, f + 1)] + [["raw", a, b]]
                cfg = {"wrapper": "interval", "t0": 0.0, "t1": 1.0, "shape": [4, 3] if levy == "davie" else [8],
                       "levy": levy, "entropy": rnd.randrange(2 ** 31), "dtype": rnd.choice(["float64", "float32"]),
                       "cache_size": cs, "dt": None, "tol": 0.0, "halfway": False, "user_W": False, "user_H": False,
                       "grid": 100}
                yield {"kind": "history", "cfg": cfg, "ops": ops, "perm": rnd.randrange(2 ** 31)}
    # the same intervals asked with their times in every representation (float, 0-dim float64 / float32 tensor, numpy scalar),
    # and with t0 / t1 handed over as tensors the caller changes later - for every Levy mode and dtype
    for levy in ("none", "space-time", "davie", "foster"):
        for dtype in ("float64", "float32"):
            for t0, span in ((0.0, 1.0), (-0.5, 2.0)):
                idx += 1
                rnd = random.Random(seed * 3001 + idx)
                ivs = [(rnd.randrange(0, 40), rnd.randrange(60, 101)) for _ in range(3)] + [(rnd.randrange(30, 50), rnd.randrange(50, 60))]
                ops = [["q", a_, b_] for _ in range(4) for (a_, b_) in ivs] + [["q", 0, 100]]
                cfg = {"wrapper": "interval", "t0": t0, "t1": t0 + span, "shape": [4, 3] if levy in ("davie", "foster") else [16],
                       "levy": levy, "entropy": rnd.randrange(2 ** 31), "dtype": dtype, "cache_size": rnd.choice([45, 2, None]),
                       "dt": None, "tol": 0.0, "halfway": False, "user_W": False, "user_H": False, "grid": 100,
                       "time_forms": True, "t_tensor_mutated": idx % 2 == 0}
                yield {"kind": "history", "cfg": cfg, "ops": ops, "perm": rnd.randrange(2 ** 31)}


def _eq(x, y):
    if x is None or y is None:
        return x is None and y is None
    return x.shape == y.shape and x.dtype == y.dtype and torch.equal(x, y)


def run_case(case):
    if case["kind"] == "adjoint":
        from . import c05_adjoint
        return c05_adjoint.run_case(case)
    import torchsde
    cfg = case["cfg"]
    bm, interval, meta = history.build(cfg, torchsde, torch)
    queries = history.expand(case)
    if case.get("twin_at") is not None:
        queries = [(cfg["t0"], cfg["t1"])] + queries + [(cfg["t0"], cfg["t1"])]
    first = {}          # (ta, tb) -> (index of first sight, tensors)
    distinct_since = {}
    order = []
    cs = cfg["cache_size"]
    gap_needed = 10 ** 9 if cs is None else cs + 1
    far_repeat = rebuild_repeat = False
    repeats = 0
    tree_dt0 = getattr(interval, "_tree_dt", None)
    rebuild_marks = []  # query indices at which the dependency tree was observed to have been rebuilt
    checks = 0
    twins = []
    for idx, (a, b) in enumerate(queries):
        if case.get("twin_at") is not None and idx == min(case["twin_at"], len(queries) - 1) and not twins:
            bm_t, _, _ = history.build(cfg, torchsde, torch)
            bm_t(cfg["t0"], cfg["t1"])
            twins.append(bm_t)
        if idx == len(queries) // 3:
            meta["mutate_again"]()      # the tensors t0 / t1 were passed in (if they were tensors) are the caller's to change
        got = bm(a, b)
        td = getattr(interval, "_tree_dt", None)
        if td != tree_dt0:
            rebuild_marks.append(idx)
            tree_dt0 = td
        key = (a, b)
        if key in first:
            i0, ref = first[key]
            repeats += 1
            checks += 1
            for name, x, y in zip("WUA", got, ref):
                if not _eq(x, y):
                    return Result(nontrivial=True, checks=checks, fail=Fail(
                        f"repeat_differs:{name}",
                        f"query {key} returned a different {name} at position {idx} than at position {i0}",
                        {"component": name, "levy": cfg["levy"], "wrapper": cfg["wrapper"]}))
            between = len(set(queries[i0 + 1:idx]) - {key})
            if between >= gap_needed:
                far_repeat = True
            if any(i0 < m <= idx for m in rebuild_marks):
                rebuild_repeat = True
        else:
            first[key] = (idx, got)
            order.append(key)
    # final pass: re-issue every distinct query in a drawn order
    g = torch.Generator().manual_seed(case["perm"])
    perm = torch.randperm(len(order), generator=g).tolist()
    n0 = len(queries)
    flag_checks = 0
    for pos, k in enumerate(perm):
        key = order[k]
        got = bm(*key)
        i0, ref = first[key]
        checks += 1
        for name, x, y in zip("WUA", got, ref):
            if not _eq(x, y):
                return Result(nontrivial=True, checks=checks, fail=Fail(
                    f"repeat_differs:{name}",
                    f"final re-query of {key} (first seen at {i0}) returned a different {name}",
                    {"component": name, "levy": cfg["levy"], "wrapper": cfg["wrapper"]}))
        # the same interval asked for with another combination of return flags (what the solvers actually do: srk asks
        # for (W, U), log_ode for (W, A), the others for W alone) must return the very same tensors
        if key[0] is not None and (meta["have_H"] or meta["have_A"]):
            variants = [(False, False), (True, False)] + ([(False, True)] if meta["have_A"] else [])
            ru, ra = variants[(case["perm"] + pos) % len(variants)]
            out = meta["base"](key[0], key[1], return_U=ru, return_A=ra)
            out = out if isinstance(out, tuple) else (out,)
            want = [ref[0]] + ([ref[1]] if ru else []) + ([ref[2]] if ra else [])
            flag_checks += 1
            checks += 1
            if len(out) != len(want) or not all(_eq(x, y) for x, y in zip(out, want)):
                return Result(nontrivial=True, checks=checks, fail=Fail(
                    "repeat_differs:flags",
                    f"query {key} with return_U={ru}, return_A={ra} returned {len(out)} tensor(s) that are not the ones "
                    f"returned with all flags on", {"component": "flags", "levy": cfg["levy"], "wrapper": cfg["wrapper"]}))
        if len(order) - 1 >= gap_needed:
            far_repeat = True
        if rebuild_marks and i0 < rebuild_marks[-1]:
            rebuild_repeat = True
    checks += 1
    changed = history.modified_after_return(meta)
    if changed is not None:
        return Result(nontrivial=True, checks=checks, fail=Fail(
            "returned_tensor_modified_later",
            f"a tensor returned for query {changed} was changed in place by later queries: the caller who kept the first "
            f"answer no longer holds the tensors the same query returns", {"levy": cfg["levy"], "wrapper": cfg["wrapper"]}))
    labels = [f"wrapper={cfg['wrapper']}", f"levy={cfg['levy']}", f"cache={cs}", f"ndim={len(cfg['shape'])}"]
    if cfg["dt"] is not None:
        labels.append("dt_hint")
    if cfg["tol"] > 0:
        labels.append("tol>0")
    if cfg["halfway"]:
        labels.append("dyadic")
    if rebuild_marks:
        labels.append("tree_rebuilt_mid_history")
    if far_repeat:
        labels.append("repeat_after_eviction")
    if rebuild_repeat:
        labels.append("repeat_across_rebuild")
    if flag_checks:
        labels.append("return_flag_subsets_checked")
    if twins:
        labels.append("twin_object_built_mid_history")
    if cfg.get("t_tensor_mutated"):
        labels.append("t0_t1_given_as_tensors_changed_by_caller_later")
    if cfg.get("time_forms") and cfg["tol"] == 0:
        labels.append("query_times_in_rotating_forms(float/tensor64/numpy/tensor32)")
    return Result(nontrivial=(far_repeat or rebuild_repeat) and len(order) >= 3, labels=labels, checks=checks,
                  metrics={"queries_per_history": n0, "repeats_in_history": repeats})


MACHINE_CLAUSES = ("repeat_differs",)


def finalize(tier, seed, stats):
    """Second engine: Hypothesis rule-based state machine over the same Brownian object (vp/machine.py)."""
    import torchsde
    from .. import machine
    n, steps = (40, 40) if tier == "quick" else (1200, 80)
    viol, cov = machine.run(torchsde, ID, seed, n, steps, shrink=(tier == "thorough"))
    if viol is not None and viol["clause"].startswith(MACHINE_CLAUSES):
        stats.violations.append({"case": viol["case"], "shrunk": True,
                                 "fail": {"clause": "state_machine:" + viol["clause"], "msg": viol["msg"], "sig": {}}})
    elif viol is not None:
        cov["state_machine_stopped_by_other_property_clause"] = viol["clause"]
    return cov
