"""C08 - sdeint is differentiable: backprop equals the numerical solution's derivative."""
import torch
from hypothesis import strategies as st

from .. import brownian_tools, sdes, solve
from ..core import Fail, Result

ID = "C08"
RULE = ("case = generic SDE x accepted (method, options incl. grad_free, Levy mode) x (t0, dt, t1, output times) x drawn "
        "loss weights on all outputs x drawn direction in (y0, every parameter) x entropy, fixed or adaptive steps, with y0 "
        "requiring grad or fixed (direction in parameters only); every accepted cell is enumerated once with either, then "
        "Hypothesis adds random cases. The "
        "directional derivative from torch.autograd (backprop through sdeint) is compared with the central difference "
        "(eps 1e-5 and eps/2, Richardson-extrapolated, float64) of the loss along that direction with the Brownian path held fixed (same entropy). Adaptive "
        "cases freeze the schedule: the base run records every error estimate and the +/-eps runs replay them (by "
        "temporarily replacing adaptive_stepping.compute_error), because the controller's step size depends continuously "
        "on the state and is deliberately not differentiated. Non-trivial = >= 3 steps and non-zero gradient on drift and "
        "diffusion parameters; distinct = distinct canonical case JSON.")
ASSUMPTIONS = ["central differences with eps=1e-5 in float64: truncation ~1e-10, asserted at 1e-6 relative",
               "adaptive: derivative of the solution with the accepted step sequence held fixed"]
BUDGET = {
    "quick": {"examples": 160, "shards": 4, "case_timeout": 90, "wall_budget": 240},
    "thorough": {"examples": 4000, "shards": 16, "case_timeout": 180, "wall_budget": 1800},
}
FUZZ = {"thorough": dict(runs=20000, procs=8, wall_s=600)}
TOLERANCES = {"directional_derivative": "1e-6 relative (floor 1e-6 * |grad| |dir|)"}
EPS = 1e-5


@st.composite
def _case(draw, tier):
    spec, combo = draw(solve.spec_and_combo())
    if spec["noise_type"] == "diagonal":
        spec = dict(spec, g_alias=draw(st.sampled_from([False, False, False, False, True])))   # g returns its input tensor
    tset = draw(solve.time_setup(max_steps=10 if tier == "quick" else 24))
    adaptive = draw(st.sampled_from([False, False, True]))
    return {"spec": spec, "combo": combo, "time": tset, "adaptive": adaptive,
            "outs": draw(st.lists(st.floats(0.02, 0.98), min_size=0, max_size=3)),
            "entropy": draw(st.integers(0, 2 ** 31 - 2)), "wseed": draw(st.integers(0, 2 ** 31 - 1)),
            "tol": draw(st.sampled_from([1e-1, 1e-2, 1e-3])),
            # a fixed initial condition (only the SDE is trained) is a distinct autograd situation: the state entering
            # the first step carries no graph
            "y0_grad": draw(st.sampled_from([True, True, False])),
            # frozen parameters (requires_grad=False): all of the drift's, all of the diffusion's, or a drawn subset - the
            # tensors entering a step then carry a graph in some places only
            "frozen": draw(st.sampled_from([None, None, "drift", "diffusion", "subset"])),
            # multiplicative noise started where it vanishes: g(t, y0) == 0 exactly while dg/dy != 0 (y0 = 0 and g replaced by
            # g(t, y) - g(t, 0))
            "g_zero_at_y0": draw(st.sampled_from([False, False, False, True])),
            # logqp=True: the loss also uses the KL integrand output (the initial state is then re-built inside sdeint)
            "logqp": draw(st.sampled_from([False, False, False, True])),
            # the drift and diffusion also depend on a tensor that is neither y0 nor a registered parameter (a context
            # written into the module by an encoder): with "only_external" every parameter is frozen and y0 is fixed
            "external": draw(st.sampled_from([None, None, None, "with_params", "only_external"])),
            # the same SDE object was first solved with gradients disabled (a validation pass before the training step)
            "prior_eval": draw(st.sampled_from([False, False, True])),
            # the solve is done in two legs, the second continued from the state and extra solver state the first returned
            # (extra=True / extra_solver_state): the derivative of the whole is still that of the numerical solution
            "two_legs": draw(st.sampled_from([False, False, True])),
            # the SDE module is in eval() mode (a model being fine-tuned with frozen normalisation layers, or simply left in
            # eval mode): what the solution's derivative is does not depend on that flag
            "eval_mode": draw(st.sampled_from([False, False, True]))}


def strategy(tier):
    return _case(tier)


def enumerate_cases(tier):
    """Every accepted (sde_type, noise_type, method, options, Levy mode) cell, with y0 requiring grad and not, on a
    d = m = 2 (scalar: m = 1) SDE with few steps (so that a per-step or first-step-only defect is not diluted)."""
    import os
    import random
    seed = int(os.environ.get("VERIF_SEED", "1") or 1)
    for idx, combo in enumerate(sdes.accepted_combos(include_grad_free=True, all_levy=True)):
        for y0_grad in (True, False):
            rnd = random.Random(seed * 2003 + idx)
            nt = combo["noise_type"]
            spec = {"sde_type": combo["sde_type"], "noise_type": nt, "d": 2, "m": 1 if nt == "scalar" else 2, "batch": 2,
                    "hidden": 3, "seed": rnd.randrange(2 ** 31), "tdep": True, "fscale": 1.0, "gscale": 0.7,
                    "dtype": "float64"}
            yield {"spec": spec, "combo": combo, "time": {"t0": 0.1, "t1": 0.1 + 0.3 * rnd.choice([2, 3]), "dt": 0.3,
                                                          "tdtype": "float64"},
                   "adaptive": False, "outs": [0.5], "entropy": rnd.randrange(2 ** 31 - 2),
                   "wseed": rnd.randrange(2 ** 31), "tol": 1e-2, "y0_grad": y0_grad,
                   "frozen": [None, "drift", "diffusion"][(idx + (0 if y0_grad else 1)) % 3],
                   "g_zero_at_y0": combo["noise_type"] != "additive" and idx % 2 == 0 and y0_grad,
                   "logqp": idx % 3 == 1 and y0_grad, "external": "only_external" if (idx % 4 == 2 and not y0_grad) else None,
                   "prior_eval": idx % 2 == 1, "two_legs": combo["method"] == "reversible_heun" or idx % 5 == 0,
                   "eval_mode": idx % 3 == 0}
    yield from _adaptive_cells()


def _adaptive_cells():
    """Every accepted cell once more with adaptive steps whose tolerances are so tight against dt_min (= dt / 2) that most
    steps are accepted only because the controller has reached dt_min (the documented forced acceptance)."""
    import os
    import random
    seed = int(os.environ.get("VERIF_SEED", "1") or 1)
    for idx, combo in enumerate(sdes.accepted_combos(include_grad_free=True, all_levy=False)):
        rnd = random.Random(seed * 2011 + idx)
        nt = combo["noise_type"]
        spec = {"sde_type": combo["sde_type"], "noise_type": nt, "d": 2, "m": 1 if nt == "scalar" else 2, "batch": 2,
                "hidden": 3, "seed": rnd.randrange(2 ** 31), "tdep": True, "fscale": 1.0, "gscale": 0.7, "dtype": "float64"}
        yield {"spec": spec, "combo": combo, "time": {"t0": 0.0, "t1": 0.5, "dt": 0.125, "tdtype": "float64"},
               "adaptive": True, "outs": [0.5], "entropy": rnd.randrange(2 ** 31 - 2), "wseed": rnd.randrange(2 ** 31),
               "tol": 1e-5, "dtmin_div": 2, "y0_grad": True, "frozen": None, "g_zero_at_y0": False, "logqp": False,
               "external": None, "prior_eval": False, "two_legs": False, "eval_mode": idx % 2 == 0}


class _IllConditioned(Exception):
    pass


def run_case(case):
    import torchsde
    from torchsde._core import adaptive_stepping
    spec, combo, tm = case["spec"], case["combo"], case["time"]
    vals = sorted({tm["t0"], tm["t1"]} | {tm["t0"] + (tm["t1"] - tm["t0"]) * f for f in case["outs"]})
    ts = torch.tensor(vals, dtype=torch.float64)
    if any(float(b) <= float(a) for a, b in zip(ts[:-1], ts[1:])):
        return Result(labels=["degenerate_ts"])
    gen = torch.Generator().manual_seed(case["wseed"])
    sde0 = sdes.build_generic(spec)
    names = [n for n, _ in sde0.named_parameters()]
    y0_grad = case.get("y0_grad", True)
    dir_y = torch.randn(spec["batch"], spec["d"], generator=gen, dtype=torch.float64) * (1.0 if y0_grad else 0.0)
    dir_p = [torch.randn(p.shape, generator=gen, dtype=torch.float64) for p in sde0.parameters()]
    frozen_kind = case.get("frozen")

    def is_frozen(k, name):
        if frozen_kind == "drift":
            return name.startswith(("f", "h"))
        if frozen_kind == "diffusion":
            return name.startswith(("g", "G"))
        if frozen_kind == "subset":
            return (case["wseed"] >> (k % 20)) & 1 == 1
        return False
    frozen = [is_frozen(k, n) for k, n in enumerate(names)]
    dir_p = [d * 0.0 if fz else d for d, fz in zip(dir_p, frozen)]
    w = None
    kw = {}
    if case["adaptive"]:
        kw = dict(adaptive=True, rtol=case["tol"], atol=case["tol"], dt_min=tm["dt"] / case.get("dtmin_div", 16))
    sig = {"method": combo["method"], "noise_type": spec["noise_type"], "sde_type": spec["sde_type"],
           "adaptive": case["adaptive"], "grad_free": bool(combo["options"])}

    class _GZero(torch.nn.Module):
        def __init__(self, base):
            super().__init__()
            self.base = base
            self.noise_type, self.sde_type, self.spec = base.noise_type, base.sde_type, base.spec

        def f(self, t, y):
            return self.base.f(t, y)

        def g(self, t, y):
            return self.base.g(t, y) - self.base.g(t, torch.zeros_like(y))

        def h(self, t, y):
            return self.base.h(t, y)

    ext = case.get("external")
    gz = bool(case.get("g_zero_at_y0")) and spec["noise_type"] != "additive"
    # logqp: fixed steps, regular diffusion (the integrand |g^+(f-h)|^2 is ill-conditioned where g nearly vanishes, and a
    # finite difference of an ill-conditioned function is no oracle)
    logqp = bool(case.get("logqp")) and spec["noise_type"] != "diagonal" and combo["method"] != "reversible_heun" \
        and not case["adaptive"] and not gz
    two_legs = bool(case.get("two_legs")) and not logqp and len(ts) >= 3
    if ext == "only_external":
        y0_grad = False
        dir_y = dir_y * 0.0
        frozen = [True] * len(frozen)
        dir_p = [d * 0.0 for d in dir_p]
    dir_c = torch.randn(2, generator=gen, dtype=torch.float64) if ext else None

    class _Ext(torch.nn.Module):
        """Drift and diffusion modulated by a context tensor that is an attribute, not a parameter."""

        def __init__(self, base, ctx_):
            super().__init__()
            self.base, self.ctx = base, ctx_
            self.noise_type, self.sde_type, self.spec = base.noise_type, base.sde_type, base.spec

        def f(self, t, y):
            return self.base.f(t, y) * (1.0 + 0.3 * self.ctx[0])

        def g(self, t, y):
            return self.base.g(t, y) * (1.0 + 0.2 * self.ctx[1])

        def h(self, t, y):
            return self.base.h(t, y)

    def loss_at(shift, need_grad, replay=None, record=None):
        nonlocal w
        sde = sdes.build_generic(spec)
        with torch.no_grad():
            for p, dp in zip(sde.parameters(), dir_p):
                p.add_(shift * dp)
        for p, fz in zip(sde.parameters(), frozen):
            if fz:
                p.requires_grad_(False)
        y0 = ((0.0 if gz else 1.0) * sdes.y0_for(spec) + shift * dir_y).requires_grad_(need_grad and y0_grad)
        params = list(sde.parameters())
        if gz:
            sde = _GZero(sde)
        ctx_t = None
        if ext:
            ctx_t = (torch.tensor([0.4, -0.6], dtype=torch.float64) + shift * dir_c).requires_grad_(need_grad)
            sde = _Ext(sde, ctx_t)
        if case.get("eval_mode"):
            sde.eval()
        bm = sdes.make_bm(torchsde, spec, ts[0], ts[-1], case["entropy"], levy=combo["levy"])
        real = adaptive_stepping.compute_error

        def ce(y11, y12, rtol, atol, *a, **k):
            if replay is not None:
                return replay.pop(0)
            out = real(y11, y12, rtol, atol, *a, **k)
            if record is not None:
                record.append(out)
            return out

        if case.get("prior_eval") and need_grad:
            with torch.no_grad():
                torchsde.sdeint(sde, y0.detach(), ts, method=combo["method"], dt=tm["dt"], options=dict(combo["options"]) or None,
                                bm=sdes.make_bm(torchsde, spec, ts[0], ts[-1], case["entropy"] + 1, levy=combo["levy"]),
                                logqp=logqp, **kw)
        ctx = torch.enable_grad() if need_grad else torch.no_grad()
        with brownian_tools.patched(adaptive_stepping, "compute_error", ce), ctx:
            if two_legs:
                k = len(ts) // 2
                ys1, ex = torchsde.sdeint(sde, y0, ts[:k + 1], bm=bm, method=combo["method"], dt=tm["dt"],
                                          options=dict(combo["options"]) or None, extra=True, **kw)
                ys2, _ = torchsde.sdeint(sde, ys1[-1], ts[k:], bm=bm, method=combo["method"], dt=tm["dt"],
                                         options=dict(combo["options"]) or None, extra=True, extra_solver_state=ex, **kw)
                ys = torch.cat([ys1, ys2[1:]], dim=0)
            else:
                ys = torchsde.sdeint(sde, y0, ts, bm=bm, method=combo["method"], dt=tm["dt"],
                                     options=dict(combo["options"]) or None, logqp=logqp, **kw)
            lq = None
            if logqp:
                ys, lq = ys
            if w is None:
                w = torch.randn(ys.shape, generator=gen, dtype=torch.float64)
            loss = (ys * w).sum()
            if lq is not None:
                if float(lq.abs().max()) > 50.0:
                    raise _IllConditioned()
                loss = loss + 0.5 * (lq * w[1:, :, 0]).sum()
        if need_grad:
            live = [p for p, fz in zip(params, frozen) if not fz]
            inputs = ([y0] if y0_grad else []) + live + ([ctx_t] if ext else [])
            if not inputs or not loss.requires_grad:
                return loss.detach(), (None,) * (1 + len(frozen) + (1 if ext else 0))
            got = list(torch.autograd.grad(loss, inputs, allow_unused=True))
            gy = got.pop(0) if y0_grad else None
            grads = (gy,) + tuple(None if fz else got.pop(0) for fz in frozen) + ((got.pop(0),) if ext else ())
            return loss.detach(), grads
        return loss, None

    record = []
    try:
        base, grads = loss_at(0.0, True, record=record)
    except _IllConditioned:
        return Result(labels=["logqp_ill_conditioned_skipped"])
    if not bool(torch.isfinite(base)):
        return Result(labels=["non_finite_base_solution"])
    lp, _ = loss_at(+EPS, False, replay=list(record) if case["adaptive"] else None)
    lm, _ = loss_at(-EPS, False, replay=list(record) if case["adaptive"] else None)
    fd = float(lp - lm) / (2 * EPS)
    # second central difference at half the step and Richardson extrapolation (error O(eps^4)): where the loss is strongly
    # curved along the direction (gradients of a few hundred after many coarse steps) the eps^2 term of the plain central
    # difference alone is of the order of the 1e-6 tolerance
    lp2, _ = loss_at(+EPS / 2, False, replay=list(record) if case["adaptive"] else None)
    lm2, _ = loss_at(-EPS / 2, False, replay=list(record) if case["adaptive"] else None)
    fd_half = float(lp2 - lm2) / EPS
    fd_plain = fd
    fd = (4.0 * fd_half - fd) / 3.0
    # what the finite difference itself cannot resolve: half the observed truncation step plus the cancellation error of
    # subtracting two losses (8 ulp of the larger one, divided by the step)
    fd_noise = 0.5 * abs(fd_half - fd_plain) + 8 * 2.2e-16 * max(abs(float(lp2)), abs(float(lm2))) / (EPS / 2)
    an = 0.0
    gnorm = 0.0
    nz = {"f": False, "g": False}
    for name, g_, d_ in zip(["y0"] + names + (["context"] if ext else []), grads,
                            [dir_y] + dir_p + ([dir_c] if ext else [])):
        if g_ is None:
            continue
        an += float((g_ * d_).sum())
        gnorm += float((g_ ** 2).sum()) * float((d_ ** 2).sum())
        if float(g_.abs().max()) > 0:
            if name.startswith("f"):
                nz["f"] = True
            if name.startswith("g") or name.startswith("G"):
                nz["g"] = True
    floor = 1e-6 * gnorm ** 0.5
    e = max(abs(an - fd) - fd_noise, 0.0) / max(abs(fd), floor, 1e-300)
    steps = (tm["t1"] - tm["t0"]) / tm["dt"]
    labels = [solve.combo_label(combo), "adaptive" if case["adaptive"] else "fixed",
              "y0_requires_grad" if y0_grad else "y0_fixed"] + ([f"frozen={frozen_kind}"] if frozen_kind else []) + \
        (["g_vanishes_at_y0"] if gz else []) + (["logqp"] if logqp else []) + ([f"external_context:{ext}"] if ext else []) + \
        (["same_sde_first_solved_under_no_grad"] if case.get("prior_eval") else []) + \
        (["continued_from_returned_extra_state"] if two_legs else []) + (["sde_in_eval_mode"] if case.get("eval_mode") else [])
    if case["adaptive"]:
        labels.append(f"trials={'>=10' if len(record) >= 10 else '<10'}")
    fail = None
    if not e <= 1e-6:
        fail = Fail("backprop_vs_finite_difference",
                    f"directional derivative by backprop {an:.10g} vs central difference {fd:.10g} (rel {e:.3e}) for "
                    f"{solve.combo_label(combo)} ({'adaptive' if case['adaptive'] else 'fixed'} steps)", sig)
    if ext == "only_external":
        nz["f"] = nz["g"] = True
        if grads[-1] is None:
            fail = Fail("backprop_vs_finite_difference",
                        f"no gradient reaches the context tensor the drift and diffusion depend on (finite difference "
                        f"{fd:.6g}) for {solve.combo_label(combo)} with every parameter frozen and y0 fixed", sig)
    if frozen_kind == "drift":
        nz["f"] = True
    if frozen_kind == "diffusion":
        nz["g"] = True
    return Result(nontrivial=steps >= 3 and nz["f"] and nz["g"], labels=labels, checks=1, fail=fail,
                  metrics={"relerr": e})
