"""C10 - reversible Heun adjoint reproduces backprop gradients to rounding error."""
import torch
from hypothesis import strategies as st

from .. import sdes
from ..core import Fail, Result

ID = "C10"
RULE = ("case = generic SDE (Stratonovich, 4 noise types, drawn batch/state/noise sizes) x dyadic (t0, dt) x up to 64 "
        "(thorough 256) steps x 1..5 output times on the step grid x drawn loss weights (a drawn subset of output times, "
        "possibly without the last one, gets weight zero) x optionally resumed at an output time through extra=True / "
        "extra_solver_state (optionally after a first stage run under no_grad, so the resumed state and extras carry no autograd "
        "history) x optionally a loss that also uses the returned extra state (f, z) x optionally an explicit adjoint_params "
        "sub-list in a drawn order (only the listed tensors are compared) x optionally two backward passes through the one forward "
        "solve (retain_graph; both passes compared) x entropy. "
        "Gradients of the loss w.r.t. y0 and every parameter from sdeint_adjoint(method='reversible_heun', "
        "adjoint_method='adjoint_reversible_heun') are compared with backprop through sdeint(method='reversible_heun'): "
        "global relative difference <= 1e-9 + 1e3 * (how far the backprop / adjoint gradients themselves move when y0 is perturbed by 1e-15: the "
        "rounding-error amplification of that trajectory) (per tensor, with an absolute floor of 1e-9 * largest gradient norm). "
        "Non-trivial = >= 4 steps and >= 2 output times after ts[0]; distinct = distinct canonical case JSON.")
ASSUMPTIONS = ["grids are dyadic: for non-dyadic dt, ts[0]+k*dt is not the solver's accumulated grid and the premise "
               "'whole multiples of dt' fails in floating point",
               "reference gradient is torch autograd through the plain solver"]
BUDGET = {
    "quick": {"examples": 120, "shards": 4, "case_timeout": 90, "wall_budget": 240},
    "thorough": {"examples": 3000, "shards": 16, "case_timeout": 300, "wall_budget": 1800},
}
FUZZ = {"thorough": dict(runs=20000, procs=8, wall_s=600)}
TOLERANCES = {"gradient_relative": 1e-9}


@st.composite
def _case(draw, tier):
    spec = draw(sdes.generic_specs(sde_types=["stratonovich"]))
    t0, dt, n = sdes.dyadic_grid(draw, max_log2_steps=6 if tier == "quick" else 8)
    n_out = draw(st.integers(1, min(n, 5)))
    cuts = sorted(set(draw(st.lists(st.integers(1, n), min_size=n_out, max_size=n_out)) + [n]))
    # which output times the loss looks at ("all loss weightings" includes losses that ignore some outputs, the last one
    # in particular) and whether the solve is resumed from the returned extra solver state / the loss uses the returned z
    mask = draw(st.lists(st.sampled_from([1, 1, 0]), min_size=len(cuts) + 1, max_size=len(cuts) + 1))
    if not any(mask):
        mask[draw(st.integers(0, len(cuts)))] = 1
    return {"spec": spec, "t0": t0, "dt": dt, "cuts": cuts, "entropy": draw(st.integers(0, 2 ** 31 - 2)),
            "wseed": draw(st.integers(0, 2 ** 31 - 1)), "levy": draw(st.sampled_from(["none", "none", "space-time"])),
            "y0_grad": draw(st.sampled_from([True, True, False])), "mask": mask,
            "resume_at": draw(st.sampled_from([None, None, 0, 1, 2])), "use_z": draw(st.sampled_from([False, False, True])),
            # burn-in: the first stage runs under no_grad, so the state and extra solver state the second stage resumes from
            # carry no autograd history (a cotangent on the *returned* extras must still be propagated)
            "burn_in": draw(st.sampled_from([False, False, True])),
            # explicit adjoint_params: None = default (all parameters), else (selection seed, keep mask seed): a drawn
            # sub-list of the module's parameters in a drawn order (not a prefix of the module's own order in general)
            "adjoint_params": draw(st.one_of(st.none(), st.none(), st.integers(0, 2 ** 20))),
            # regime switch: from a drawn grid time on the diffusion is a constant without state or parameters (whether g
            # carries an autograd graph then depends on t)
            "gswitch": draw(st.sampled_from([None, None, None, 0.25, 0.5, 0.75])),
            # two backward passes through one forward solve (retain_graph=True: two losses of one trajectory); the gradients
            # compared are those of the second pass as well as the first
            "twice": draw(st.sampled_from([False, False, True])),
            # the loss looks at the returned extra solver state only (the solution ys is not part of the differentiated graph)
            "extras_only": draw(st.sampled_from([False, False, False, True]))}


def strategy(tier):
    return _case(tier)


def run_case(case):
    import torchsde
    spec = case["spec"]
    t0, dt = case["t0"], case["dt"]
    ts = torch.tensor([t0] + [t0 + c * dt for c in case["cuts"]], dtype=torch.float64)
    g = torch.Generator().manual_seed(case["wseed"])
    grads = []
    if case.get("gswitch") is not None:
        n_steps = case["cuts"][-1]
        spec = dict(spec, gswitch=t0 + max(1, round(case["gswitch"] * n_steps)) * dt)
    # third and fourth pass: backprop and the adjoint once more from an initial state moved by 1e-15 (relative) - how much each gradient itself moves
    # under a perturbation of the size of a few rounding errors is the yardstick for "up to floating-point rounding" on this
    # trajectory (hundreds of steps of an expanding flow amplify rounding errors far beyond 1e-16)
    for adjoint, jitter in ((False, 0.0), (True, 0.0), (False, 1e-15), (True, 1e-15)):
        sde = sdes.build_generic(spec)
        y0 = (sdes.y0_for(spec) * (1.0 + jitter)).requires_grad_(case["y0_grad"])
        bm = sdes.make_bm(torchsde, spec, ts[0], ts[-1], case["entropy"], levy=case["levy"])
        selected = None
        if case.get("adjoint_params") is not None:
            import random
            rnd = random.Random(case["adjoint_params"])
            named_all = [(n_, p_) for n_, p_ in sde.named_parameters()]
            rnd.shuffle(named_all)
            selected = named_all[:rnd.randint(1, len(named_all))]

        def solve(y_start, ts_part, extra_state):
            kw = {} if extra_state is None else {"extra_solver_state": extra_state}
            if adjoint:
                if selected is not None:
                    kw["adjoint_params"] = [p_ for _, p_ in selected]
                return torchsde.sdeint_adjoint(sde, y_start, ts_part, bm=bm, method="reversible_heun",
                                               adjoint_method="adjoint_reversible_heun", dt=dt, extra=True, **kw)
            return torchsde.sdeint(sde, y_start, ts_part, bm=bm, method="reversible_heun", dt=dt, extra=True, **kw)

        r = case.get("resume_at")
        burn = False
        if r is not None and len(ts) >= 3:
            k = 1 + r % (len(ts) - 2)               # resume at an interior output time (on the step grid)
            if case.get("burn_in"):
                burn = True
                with torch.no_grad():
                    ys1, extra1 = solve(y0, ts[:k + 1], None)
                y0 = ys1[-1].clone().requires_grad_(case["y0_grad"])     # the differentiable solve starts here
                ys2, extra = solve(y0, ts[k:], extra1)
                ys = torch.cat([ys1[:-1], ys2], dim=0)
            else:
                ys1, extra1 = solve(y0, ts[:k + 1], None)
                ys2, extra = solve(ys1[-1], ts[k:], extra1)
                ys = torch.cat([ys1, ys2[1:]], dim=0)
            resumed = True
        else:
            ys, extra = solve(y0, ts, None)
            resumed = False
        if not grads:
            w = torch.randn(ys.shape, generator=g, dtype=ys.dtype)
            w = w * torch.tensor(case.get("mask", [1] * len(ts)), dtype=ys.dtype).reshape(-1, 1, 1)
            wz = torch.randn(extra[2].shape, generator=g, dtype=ys.dtype)
        loss = (ys * w).sum()
        if case.get("extras_only"):
            loss = (extra[2] * wz).sum() + 0.3 * (extra[0] * wz).sum() + 0.2 * (extra[1].reshape(extra[1].size(0), -1)[:, :1] * wz[:, :1]).sum()
        elif case.get("use_z"):
            loss = loss + (extra[2] * wz).sum() + 0.3 * (extra[0] * wz).sum()
        first_pass = []
        if not loss.requires_grad:
            # nothing in the loss is connected to y0 or the parameters on this side (must then be so on the other side too:
            # every gradient is reported as missing and compared below)
            named = [("y0", None)] + [(n_, None) for n_, _ in (selected if selected is not None else sde.named_parameters())]
            grads.append((ys.detach(), sorted(named[1:], key=lambda kv: kv[0]) if selected is not None else named))
            if selected is not None:
                grads[-1] = (ys.detach(), [("y0", None)] + grads[-1][1])
            continue
        if case.get("twice"):
            w2 = torch.randn(ys.shape, generator=torch.Generator().manual_seed(case["wseed"] + 1), dtype=ys.dtype)
            inputs = ([y0] if y0.requires_grad else []) + ([p_ for _, p_ in selected] if selected is not None
                                                           else list(sde.parameters()))
            g1 = torch.autograd.grad((ys * w2).sum(), inputs, retain_graph=True, allow_unused=True)
            first_pass = [(f"first_pass[{k}]", x) for k, x in enumerate(g1)]
        loss.backward()
        if selected is None:
            named = [("y0", y0.grad)] + [(n_, p.grad) for n_, p in sde.named_parameters()]
        else:
            # only the tensors asked for are compared (what the others receive is C09's bookkeeping clause)
            named = [("y0", y0.grad)] + sorted(((n_, p_.grad) for n_, p_ in selected), key=lambda kv: kv[0])
        grads.append((ys.detach(), named + first_pass))
    (ys_a, ga), (ys_b, gb), (_, gc), (_, gd) = grads
    sig = {"noise_type": spec["noise_type"]}
    checks = 1
    if not torch.equal(ys_a, ys_b):
        return Result(nontrivial=True, checks=checks, fail=Fail(
            "forward_values_differ", "sdeint_adjoint forward values differ from sdeint (reversible_heun)", sig))
    biggest = max([float(x.abs().max()) for _, x in ga if x is not None] + [1e-300])
    worst = 0.0
    worst_amp = 0.0
    for k_, ((name, x), (_, y)) in enumerate(zip(ga, gb)):
        checks += 1
        if (x is None) != (y is None):
            # a parameter the SDE does not use: backprop leaves None, the adjoint returns zeros
            z = x if x is not None else y
            if float(z.abs().max()) != 0.0:
                return Result(nontrivial=True, checks=checks, fail=Fail(
                    "gradient_bookkeeping", f"gradient of {name} is None on one side and non-zero on the other", sig))
            continue
        if x is None:
            continue
        denom = max(float(x.abs().max()), 1e-9 * biggest, 1e-300)
        e = float((x - y).abs().max()) / denom
        amp = 0.0
        for ref_, pert_ in ((x, gc), (y, gd)):      # backprop and adjoint (whose backward reconstruction has its own growth)
            z_ = pert_[k_][1] if k_ < len(pert_) else None
            if z_ is not None and z_.shape == ref_.shape:
                amp = max(amp, float((ref_ - z_).abs().max()) / denom)
        worst = max(worst, e)
        worst_amp = max(worst_amp, e / (1e-9 + 1e3 * amp))
        if not e <= 1e-9 + 1e3 * amp:
            return Result(nontrivial=True, checks=checks, metrics={"grad_relerr": worst}, fail=Fail(
                "gradient_mismatch", f"adjoint_reversible_heun gradient of {name} differs from backprop: rel {e:.3e} "
                                     f"({spec['noise_type']} noise, {case['cuts'][-1]} steps of {dt}, "
                                     f"{len(case['cuts'])} outputs)", dict(sig, tensor=name)))
    n = case["cuts"][-1]
    labels = [f"noise={spec['noise_type']}", f"outputs={min(len(case['cuts']), 3)}+" if len(case["cuts"]) >= 3 else
              f"outputs={len(case['cuts'])}", "y0_grad" if case["y0_grad"] else "y0_no_grad"]
    mask = case.get("mask", [1])
    if not all(mask):
        labels.append("loss_ignores_some_outputs")
    if not mask[-1]:
        labels.append("loss_ignores_last_output")
    if resumed:
        labels.append("resumed_from_extra_state")
    if case.get("use_z"):
        labels.append("loss_uses_returned_extra_state")
    if burn:
        labels.append("resumed_after_no_grad_burn_in")
    if case.get("adjoint_params") is not None:
        labels.append("explicit_adjoint_params_sublist")
    if case.get("gswitch") is not None:
        labels.append("diffusion_regime_switch")
    if case.get("twice"):
        labels.append("two_backward_passes_through_one_solve")
    if case.get("extras_only"):
        labels.append("loss_on_returned_extra_state_only")
    return Result(nontrivial=n >= 4 and len(case["cuts"]) >= 2, labels=labels, checks=checks,
                  metrics={"grad_relerr": worst, "grad_relerr_over_tolerance": worst_amp, "steps": n})
