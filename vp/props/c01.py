"""C01 - solutions converge to the true SDE solution at the advertised strong order."""
import math

import torch
from hypothesis import strategies as st

from .. import core, sdes, sdes_closed
from ..core import Fail, Result

ID = "C01"
RULE = ("case = accepted (sde_type, noise_type, method, options incl. grad_free Milstein, Levy mode) x an SDE drawn from "
        "the closed-form families valid for that noise type (reducible phi in {exp, arctan, sinh, gd} with g''!=0 for all "
        "but exp; linear with commuting but non-symmetric matrices; time-scaled additive; a non-commutative triangular "
        "SDE with a fine Riemann reference) with drawn coefficients, y0, t0, horizon, entropy. One BrownianInterval with "
        "B = 2048 (thorough 4096) paths drives the whole ladder dt = T*2^-3..T*2^-8 (thorough 2^-10); err(dt) = RMS over paths of |y_T - exact|, "
        "exact evaluated on bm(t0,T) of the same object. Oracles: least-squares slope of log err over the fine part of the "
        "ladder >= advertised strong order (read from the instantiated solver) - 0.25, and err(finest) <= err(coarsest) * "
        "2^-((order-0.25)*number of halvings); "
        "the advertised order itself must equal the documented table. Adaptive kind: errors for rtol=atol in "
        "{1e-1..1e-4} are non-increasing within 10% and the tightest is <= half the loosest (when there is something to "
        "gain). Half of the cells use a horizon that is not a multiple of dt (clipped last step). Shared-options kind: a "
        "history of Milstein solves sharing one options dict object must equal the same solves with fresh dicts, and the "
        "dict must be unchanged. Non-trivial = diffusion "
        "not identically zero and the slope window has >= 4 points above 1e3*eps; distinct = distinct canonical case JSON.")
ASSUMPTIONS = ["finite ladder inside a coefficient box with T*Lipschitz <~ 2 ('asymptotic regime'); one-sided (orders above "
               "the advertisement are accepted)",
               "margin 0.25 on the slope calibrated on the unchanged tree (|measured - theory| <= 0.07 where theory is met)",
               "triangular_nc reference: Stratonovich sum at delta = dt_min/16 on the same Brownian object"]
BUDGET = {
    "quick": {"examples": 160, "shards": 16, "case_timeout": 240, "wall_budget": 280},
    "thorough": {"examples": 1600, "shards": 16, "case_timeout": 900, "wall_budget": 3000},
}
TOLERANCES = {"slope_margin": 0.25, "finest_vs_coarsest": "2^-((order-0.25)*halvings)", "adaptive_monotone_slack": 1.10}
MARGIN = 0.25


@st.composite
def _case(draw, tier, adaptive=False):
    combo = draw(st.sampled_from(sdes.accepted_combos(include_grad_free=True, all_levy=True)))
    spec = draw(sdes_closed.closed_specs(combo["sde_type"], combo["noise_type"], allow_nc=True))
    T = draw(st.sampled_from([0.5, 1.0, 1.0, 0.75]))
    t0 = draw(st.sampled_from([0.0, 0.0, 0.5, -1.0, 4096.0, -20000.0]))      # also windows far from the time origin
    return {"kind": "adaptive" if adaptive else "ladder", "combo": combo, "spec": spec, "t0": t0, "T": T,
            "entropy": draw(st.integers(0, 2 ** 31 - 2)), "y0seed": draw(st.integers(0, 2 ** 31 - 1)),
            "kmax": 8 if tier == "quick" else 10, "paths": 2048 if tier == "quick" else 4096,
            "clip": draw(st.booleans()),
            # intermediate output times that are not step ends (the error is still measured at ts[-1] only: interpolated
            # values inside a step are O(sqrt(dt)) off by nature, but asking for them must not disturb the trajectory)
            "outs": draw(st.sampled_from([[], [], [0.37], [1 / 3, 0.7]])),
            # adaptive kind: the initial step as a fraction of the horizon (also as long as, or longer than, the horizon)
            "dt0": draw(st.sampled_from([0.5, 0.5, 0.1, 1.0, 2.0])),
            "rel_only": draw(st.sampled_from([False, False, True])),
            # ts given as a Python list, and a Brownian motion defined on a longer interval than the one integrated over
            "ts_list": draw(st.sampled_from([False, False, True])),
            # the autograd context the solve is requested in (no_grad / inference_mode / grad enabled, nothing requiring it)
            "ctx": draw(st.sampled_from(["no_grad", "no_grad", "inference", "grad"]))}


@st.composite
def _shared_options_case(draw, tier):
    """A history of solves that share one options dict object (the caller keeps `opts = dict(grad_free=True)` around)."""
    n = draw(st.integers(2, 4))
    combos = [c for c in sdes.accepted_combos(include_grad_free=True, all_levy=False) if c["method"] == "milstein"]
    seq = []
    for _ in range(n):
        c = draw(st.sampled_from(combos))
        seq.append({"combo": c, "spec": draw(sdes_closed.closed_specs(c["sde_type"], c["noise_type"], allow_nc=False))})
    return {"kind": "shared_options", "seq": seq, "grad_free": draw(st.sampled_from([True, True, False])),
            "entropy": draw(st.integers(0, 2 ** 31 - 2)), "y0seed": draw(st.integers(0, 2 ** 31 - 1))}


def strategy(tier):
    return st.one_of(_case(tier), _case(tier), _case(tier), _case(tier), _case(tier, adaptive=True),
                     _shared_options_case(tier))


FAMILY_MATRIX = {
    "diagonal": [("reducible", "exp"), ("reducible", "arctan"), ("reducible", "sinh"), ("reducible", "gd"),
                 ("scaled_additive", None)],
    "scalar": [("reducible", "exp"), ("reducible", "gd"), ("linear_commuting", None)],
    "additive": [("scaled_additive", None), ("additive_nl", None)],
    "general": [("linear_commuting", None), ("scaled_additive", None), ("triangular_nc", None)],
}


ADAPTIVE_FAMILY = {"diagonal": ("reducible", "arctan"), "scalar": ("reducible", "gd"), "additive": ("scaled_additive", None),
                   "general": ("linear_commuting", None)}


def enumerate_cases(tier):
    """Systematic part: every accepted combination x every closed-form family valid for its noise type, coefficients from
    a PRNG seeded by VERIF_SEED (so each seed explores other coefficients but never skips a cell)."""
    import os
    import random
    seed = int(os.environ.get("VERIF_SEED", "1") or 1)
    idx = 0
    for combo in sdes.accepted_combos(include_grad_free=True, all_levy=True):
        for fam, phi in FAMILY_MATRIX[combo["noise_type"]]:
            idx += 1
            rnd = random.Random(seed * 100003 + idx)

            def coef(lo, hi):
                return round(rnd.uniform(lo, hi), 2)

            def signed(lo, hi):
                return coef(lo, hi) * rnd.choice([-1, 1])
            nt = combo["noise_type"]
            spec = {"family": fam, "sde_type": combo["sde_type"], "noise_type": nt, "per_row": False,
                    "seed": rnd.randrange(2 ** 31), "c": rnd.choice([0.0, 0.5, -0.8])}
            if fam == "reducible":
                d = rnd.randint(1, 3)
                spec.update({"d": d, "m": d if nt == "diagonal" else 1, "phi": phi,
                             "a": [signed(0.4, 1.0) for _ in range(3)], "b": [coef(-0.8, 0.8) for _ in range(3)]})
            elif fam == "linear_commuting":
                spec.update({"d": rnd.randint(2, 3), "m": 1 if nt == "scalar" else rnd.randint(1, 3),
                             "alpha": [coef(-0.6, 0.3), coef(-0.8, 0.8)],
                             "beta": [[coef(-0.5, 0.5), signed(0.3, 0.9)] for _ in range(3)]})
            elif fam == "additive_nl":
                spec.update({"d": rnd.randint(1, 2), "m": rnd.randint(1, 3), "k": [signed(0.8, 2.0) for _ in range(2)],
                             "om": rnd.choice([0.0, 1.0, 3.0])})
            elif fam == "scaled_additive":
                d = rnd.randint(1, 3)
                spec.update({"d": d, "m": d if nt == "diagonal" else rnd.randint(1, 3),
                             "beta": [coef(-1, 1) for _ in range(3)], "lam": coef(-0.8, 0.5),
                             "om": rnd.choice([0.0, 1.0, 3.0])})
            else:
                spec.update({"d": 2, "m": 2, "kappa": coef(-1, 1)})
            yield {"kind": "ladder", "combo": combo, "spec": spec, "t0": rnd.choice([0.0, 0.5, -1.0, 0.0, 4096.0, -20000.0]),
                   "T": rnd.choice([0.5, 1.0, 0.75]), "entropy": rnd.randrange(2 ** 31 - 2),
                   "y0seed": rnd.randrange(2 ** 31), "kmax": 8 if tier == "quick" else 10,
                   "paths": 2048 if tier == "quick" else 4096, "clip": (idx + seed) % 2 == 0,
                   "outs": [[], [0.37], [1 / 3, 0.7]][(idx + seed) % 3], "ts_list": (idx + seed) % 4 == 1,
                   "ctx": "inference" if (idx + seed) % 2 == 0 else "no_grad"}
            if (fam, phi) == ADAPTIVE_FAMILY[nt]:
                # the adaptive clause on every accepted cell as well (a curved family where there is one): random draws
                # alone left e.g. (reversible_heun, adaptive, non-linear coefficients) unvisited in most runs
                yield {"kind": "adaptive", "combo": combo, "spec": dict(spec), "t0": rnd.choice([0.0, 0.5, -1.0, 0.0, 4096.0, -20000.0]),
                       "T": rnd.choice([0.5, 1.0]), "entropy": rnd.randrange(2 ** 31 - 2),
                       "y0seed": rnd.randrange(2 ** 31), "kmax": 8, "paths": 512 if tier == "quick" else 2048,
                       "clip": False, "dt0": [0.5, 1.0, 2.0, 0.1][(idx + seed) % 4], "rel_only": (idx + seed) % 2 == 0,
                       "ctx": "inference" if (idx + seed) % 3 == 0 else "no_grad"}


def _solver_order(torchsde, sde, bm, combo):
    from torchsde._core import base_sde, methods
    cls = methods.select(combo["method"], sde.sde_type)
    solver = cls(sde=base_sde.ForwardSDE(sde), bm=bm, dt=0.1, adaptive=False, rtol=1e-3, atol=1e-3, dt_min=1e-5,
                 options=dict(combo["options"]))
    return float(solver.strong_order)


def _slope(xs, ys):
    n = len(xs)
    mx, my = sum(xs) / n, sum(ys) / n
    return sum((x - mx) * (y - my) for x, y in zip(xs, ys)) / sum((x - mx) ** 2 for x in xs)


def _run_shared_options(case):
    """Each solve of the history must be bit-identical to the same solve made with a fresh options dict, and the caller's
    dict must come back unchanged: an options object is an input, not a place to keep state between calls."""
    import torchsde
    shared = {"grad_free": case["grad_free"]}
    original = dict(shared)
    B = 8
    checks = 0
    for i, item in enumerate(case["seq"]):
        combo, spec = item["combo"], item["spec"]
        sde = sdes_closed.compile_spec(spec, B)
        y0 = sde.y0(B, case["y0seed"])
        ts = torch.tensor([0.0, 0.5], dtype=torch.float64)
        outs = []
        for opts in (shared, dict(original)):
            bm = torchsde.BrownianInterval(t0=0.0, t1=0.5, size=(B, spec["m"]), dtype=torch.float64,
                                           entropy=case["entropy"] + i)
            with torch.no_grad():
                outs.append(torchsde.sdeint(sde, y0, ts, bm=bm, method="milstein", dt=0.125, options=opts))
        checks += 1
        sig = {"kind": "shared_options", "position": i}
        if shared != original:
            return Result(nontrivial=True, checks=checks, fail=Fail(
                "options_dict_mutated", f"sdeint changed the caller's options dict from {original} to {shared} "
                                        f"(solve #{i}: {combo['sde_type']}/{combo['noise_type']}/milstein)", sig))
        if not torch.equal(outs[0], outs[1]):
            return Result(nontrivial=True, checks=checks, fail=Fail(
                "options_dict_leak", f"solve #{i} ({combo['sde_type']}/{combo['noise_type']}/milstein) gives a different "
                                     f"result with the options dict shared with earlier solves than with a fresh one",
                sig))
    kinds = {it["combo"]["noise_type"] for it in case["seq"]}
    return Result(nontrivial=len(kinds) >= 2, labels=["kind=shared_options"], checks=checks)


def run_case(case):
    import torchsde
    if case["kind"] == "shared_options":
        return _run_shared_options(case)
    combo, spec = case["combo"], case["spec"]
    nc = spec["family"] == "triangular_nc"
    anl = spec["family"] == "additive_nl"
    if abs(case["t0"]) > 100 and spec["family"] == "scaled_additive":
        # this family's coefficients contain exp(lam t): not a meaningful problem at |t| ~ 1e4 (overflow); keep the window
        # near the origin for it
        case = dict(case, t0=0.5)
    kmax = case.get("kmax", 8)
    B = case.get("paths", 2048) // (2 if (nc or anl) else 1)
    if case.get("ts_list"):
        case = dict(case, T=case["T"] * 0.6, t0=case["t0"] + 0.1)     # end points with many significant bits (0.4, 0.7, ...)
    sde = sdes_closed.compile_spec(spec, B)
    y0 = sde.y0(B, case["y0seed"])
    # purely relative tolerances (atol = 0) on a solution of small magnitude: only for families that are homogeneous in y0
    rel_only = bool(case.get("rel_only")) and case["kind"] == "adaptive" and \
        (spec["family"] == "linear_commuting" or (spec["family"] == "reducible" and spec.get("phi") == "exp"))
    if rel_only:
        y0 = y0 * 1e-3
    t0, t1 = case["t0"], case["t0"] + case["T"]
    ts = torch.tensor([t0] + [t0 + fr * case["T"] for fr in case.get("outs", [])] + [t1], dtype=torch.float64)
    # the hand-written order-1.5 reference of additive_nl needs the space-time integral U of the same path
    bm_levy = "space-time" if (anl and combo["levy"] == "none") else combo["levy"]
    pad = (0.25, 0.5) if case.get("ts_list") else (0.0, 0.0)
    bm = torchsde.BrownianInterval(t0=t0 - pad[0], t1=t1 + pad[1], size=(B, spec["m"]), dtype=torch.float64,
                                   entropy=case["entropy"], levy_area_approximation=bm_levy, cache_size=None)
    if case.get("ts_list"):
        ts = [float(x) for x in ts]
    sig = {"sde_type": combo["sde_type"], "noise_type": combo["noise_type"], "method": combo["method"],
           "grad_free": bool(combo["options"]), "family": spec["family"], "kind": case["kind"]}
    label = f"{combo['sde_type']}/{combo['noise_type']}/{combo['method']}" + ("+grad_free" if combo["options"] else "")
    labels = [label, f"family={spec['family']}" + (f":{spec['phi']}" if spec["family"] == "reducible" else ""),
              f"levy={combo['levy']}"] + (["clipped_last_step"] if case.get("clip") and case["kind"] == "ladder" else []) + \
        (["interior_outputs_off_grid"] if case.get("outs") else []) + \
        (["ts_as_list_bm_on_longer_interval"] if case.get("ts_list") else []) + [f"ctx={case.get('ctx') or 'no_grad'}"]
    opts = dict(combo["options"]) or None
    ks = list(range(3, (kmax if nc else kmax + 1)))
    if anl:
        ks = [2, 3, 4, 5, 6]        # reference: order-1.5 Taylor at T*2^-11 (error ~1e-5)
    with torch.no_grad():
        if anl:
            exact = sde.exact_riemann(y0, t0, t1, bm, case["T"] * 2.0 ** -11)
        elif nc:
            exact = sde.exact_riemann(y0, t0, t1, bm, case["T"] * 2.0 ** -(ks[-1] + 4))
        else:
            exact = sde.exact(y0, t0, t1, bm(t0, t1))

    def err_of(ys):
        return float(torch.sqrt(((ys[-1] - exact) ** 2).sum(1).mean()))

    checks = 0
    if case["kind"] == "adaptive":
        errs = []
        tols = [1e-1, 1e-2, 1e-3, 1e-4]
        for tol in tols:
            with core.grad_ctx(case.get("ctx")):
                ys = torchsde.sdeint(sde, y0, ts, bm=bm, method=combo["method"], dt=case["T"] * case.get("dt0", 0.5),
                                     adaptive=True,
                                     rtol=tol, atol=0.0 if rel_only else tol, dt_min=case["T"] * 2.0 ** -12, options=opts)
            errs.append(err_of(ys.detach()))
        checks += 1
        fail = None
        # a gain is only required when the loosest run's error is well above what the tightest tolerance asks for
        # (otherwise every tolerance accepts the same steps and there is nothing to shrink)
        yscale = max(1.0, float(torch.sqrt((exact ** 2).sum(1).mean())))
        if rel_only:
            yscale = float(torch.sqrt((exact ** 2).sum(1).mean()))      # the tolerance is relative to the solution itself
            labels.append("relative_tolerance_only")
        # tightening must not make things worse - but two errors that both lie below the tighter tolerance are ordered by
        # chance (another step sequence on the same path), not by the controller
        mono = all(b <= a * 1.10 + 1e-13 or b <= 3.0 * tol_b * yscale
                   for a, b, tol_b in zip(errs[:-1], errs[1:], tols[1:]))
        gain_required = errs[0] > 50 * tols[-1] * yscale
        if gain_required:
            labels.append("adaptive_gain_required")
        if not all(math.isfinite(e) for e in errs) or not mono or \
                (gain_required and not errs[-1] <= 0.5 * errs[0] + 1e-13):
            fail = Fail("adaptive_error_not_decreasing",
                        f"{label} on {spec['family']}: true RMS errors for rtol=atol={tols} are {errs}", sig)
        return Result(nontrivial=gain_required, labels=labels + ["kind=adaptive"], checks=checks, fail=fail,
                      metrics={"min:adaptive_gain": errs[0] / max(errs[-1], 1e-300)})
    # ---- fixed-step ladder -----------------------------------------------------------------------------------------
    adv = _solver_order(torchsde, sde, bm, combo)
    doc = sdes.advertised_order(combo["sde_type"], combo["noise_type"], combo["method"])
    checks += 1
    if adv != doc:
        return Result(nontrivial=True, checks=checks, labels=labels, fail=Fail(
            "advertised_order_changed", f"{label} advertises strong order {adv}, documentation says {doc}", sig))
    errs = []
    for k in ks:
        # "clip": the horizon is not a multiple of dt, so the last step is clipped to ts[-1] (shorter than dt)
        dt = case["T"] * 2.0 ** -k * (0.93 if case.get("clip") else 1.0)
        with core.grad_ctx(case.get("ctx")):
            ys = torchsde.sdeint(sde, y0, ts, bm=bm, method=combo["method"], dt=dt, options=opts)
        ys = ys.detach()
        errs.append(err_of(ys))
    checks += 1
    if not all(math.isfinite(e) for e in errs):
        return Result(nontrivial=True, checks=checks, labels=labels, fail=Fail(
            "non_finite_solution", f"{label} on {spec['family']}: errors {errs}", sig))
    floor = 1e3 * torch.finfo(torch.float64).eps * max(1.0, float(exact.abs().max()))
    window = [(k, e) for k, e in zip(ks, errs) if e > floor][-4:]
    if len(window) < 4:
        # the method is exact (or nearly) on this problem: nothing to measure, and certainly no violation
        return Result(nontrivial=False, labels=labels + ["error_at_rounding_level"], checks=checks,
                      metrics={"finest_err": errs[-1]})
    slope = _slope([-k * math.log(2) for k, _ in window], [math.log(e) for _, e in window])
    checks += 1
    fail = None
    if not slope >= adv - MARGIN:
        fail = Fail("order_below_advertised",
                    f"{label} (Levy {combo['levy']}) on {spec['family']}"
                    f"{':' + spec['phi'] if spec['family'] == 'reducible' else ''}: measured strong order {slope:.3f} over "
                    f"dt=T*2^-{window[0][0]}..2^-{window[-1][0]}, advertised {adv}; RMS errors {['%.3e' % e for e in errs]}",
                    sig)
    elif not errs[-1] <= errs[0] * 2.0 ** (-(adv - MARGIN) * (ks[-1] - ks[0])):
        bound = errs[0] * 2.0 ** (-(adv - MARGIN) * (ks[-1] - ks[0]))
        fail = Fail("no_convergence", f"{label} on {spec['family']}: err(finest)={errs[-1]:.3e} is not below "
                                      f"err(coarsest)*2^-({adv}-{MARGIN})*{ks[-1] - ks[0]}={bound:.3e}", sig)
    return Result(nontrivial=True, labels=labels, checks=checks, fail=fail,
                  metrics={"min:slope_minus_advertised": slope - adv, "finest_err": errs[-1]})
