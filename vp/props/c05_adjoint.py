"""C05, consequence clause: the backward (adjoint) pass sees exactly the noise the forward pass used."""
import torch
from hypothesis import strategies as st

from .. import brownian_tools, sdes
from ..core import Fail, Result


@st.composite
def cases(draw, tier):
    spec = draw(sdes.generic_specs())
    combos = [c for c in sdes.accepted_combos(include_grad_free=False)
              if c["sde_type"] == spec["sde_type"] and c["noise_type"] == spec["noise_type"]]
    combo = draw(st.sampled_from(combos))
    t0, dt, n = sdes.dyadic_grid(draw, max_log2_steps=5 if tier == "quick" else 7)
    n_out = draw(st.integers(1, min(n, 4)))
    cuts = sorted(set(draw(st.lists(st.integers(1, n), min_size=n_out, max_size=n_out)) + [n]))
    levy = combo["levy"]
    if levy == "none" and draw(st.booleans()):
        levy = draw(st.sampled_from(["none", "space-time", "davie", "foster"]))
    return {"kind": "adjoint", "spec": spec, "method": combo["method"], "levy": levy,
            "t0": t0, "dt": dt, "cuts": cuts, "entropy": draw(st.integers(0, 2 ** 31 - 2)),
            "cache_size": draw(st.sampled_from([1, 2, 5, 45, None])),
            "dt_hint": draw(st.booleans())}


def run_case(case):
    import torchsde
    spec = case["spec"]
    sde = sdes.build_generic(spec)
    y0 = sdes.y0_for(spec).requires_grad_(True)
    ts = torch.tensor([case["t0"]] + [case["t0"] + c * case["dt"] for c in case["cuts"]], dtype=torch.float64)
    kw = {"cache_size": case["cache_size"]}
    if case["dt_hint"]:
        kw["dt"] = case["dt"]
    inner = sdes.make_bm(torchsde, spec, ts[0], ts[-1], case["entropy"], levy=case["levy"], **kw)
    rec = brownian_tools.make_recording(inner, keep_values=True)
    ys = torchsde.sdeint_adjoint(sde, y0, ts, bm=rec, method=case["method"], dt=case["dt"])
    n_forward = len(rec.log)
    w = torch.linspace(0.5, 1.5, ys.numel(), dtype=ys.dtype).reshape(ys.shape)
    (ys * w).sum().backward()
    first = {}
    reissued = 0
    checks = 0
    for idx, (entry, vals) in enumerate(zip(rec.log, rec.values)):
        ta, tb, _ru, _ra = entry
        key = (ta, tb)
        if key in first:
            i0, ref = first[key]
            if idx >= n_forward and i0 < n_forward:
                reissued += 1
            checks += 1
            # W is always the first component
            if not torch.equal(vals[0], ref[0]):
                return Result(nontrivial=True, checks=checks, fail=Fail(
                    "adjoint_noise_differs", f"backward query {key} (call {idx}) returned a different W than forward "
                    f"call {i0}", {"method": case["method"], "noise_type": spec["noise_type"]}))
        else:
            first[key] = (idx, vals)
    labels = ["kind=adjoint", f"method={case['method']}", f"noise={spec['noise_type']}", f"sde={spec['sde_type']}"]
    return Result(nontrivial=reissued >= 3, labels=labels, checks=checks,
                  metrics={"backward_reissued_forward_intervals": reissued})
