"""C12 - outputs lie on one dt-grid trajectory: interpolation and output-time invariance."""
import torch
from hypothesis import strategies as st

from .. import sdes, solve
from ..core import Fail, Result

ID = "C12"
RULE = ("case = generic SDE (4 noise types, both calculi) x accepted (method, options, Levy mode) x (t0, dt, t1 with "
        "aligned or fractional last step) x two drawn output-time vectors A and B sharing end points (strictly inside "
        "steps, several per step, on grid points, dt larger than gaps) x float32/float64 x ts given as tensor/list/"
        "tuple/float64-tensor-with-float32-state. Oracles: the Brownian query log is the grid ts[0]+k*dt clipped at ts[-1] "
        "(8 ulp of slack for accumulate-vs-multiply), contiguous, identical for A, B and ts=[t0,t1]; the grid states equal "
        "those obtained by the harness stepping the same solver class directly over that grid (independent of "
        "BaseSDESolver.integrate; 16 eps); ys[0] is y0 bit-exact; outputs at grid times "
        "equal the states of the run whose ts is the grid itself (bit-exact); interior outputs equal the linear "
        "interpolant recomputed from that run (4 ulp); values at times shared by A and B are bit-identical; shape "
        "(len(ts), batch, d) and dtype of y0. Non-trivial = an output strictly inside a step and (two outputs in one "
        "step or a last step clipped); distinct = distinct canonical case JSON.")
ASSUMPTIONS = ["the reference trajectory is the same code run with ts = the grid; the grid itself is recomputed "
               "independently from the property's rule"]
BUDGET = {
    "quick": {"examples": 200, "shards": 4, "case_timeout": 60, "wall_budget": 240},
    "thorough": {"examples": 5000, "shards": 16, "case_timeout": 120, "wall_budget": 1800},
}
FUZZ = {"thorough": dict(runs=20000, procs=8, wall_s=600)}
TOLERANCES = {"grid_states/shared_times/ys0": "bit-identical", "interior_interpolant": "4 ulp (relative 4*eps)"}


@st.composite
def _case(draw, tier):
    spec, combo = draw(solve.spec_and_combo(dtypes=("float64", "float32")))
    if spec["noise_type"] == "diagonal":
        spec = dict(spec, g_alias=draw(st.sampled_from([False, False, False, False, True])))   # g returns its input tensor
    # a diffusion that returns one stored tensor on every call: the solver must treat what f and g return as read-only
    spec["gstored"] = draw(st.sampled_from([None, None, None, True]))
    # a drift that returns its input tensor itself (dY = Y dt + ...): recorded states must not be overwritten
    spec["f_alias"] = draw(st.sampled_from([None, None, None, True]))
    tset = draw(solve.time_setup(max_steps=24 if tier == "quick" else 64, dtypes=(spec["dtype"],)))
    small = spec["dtype"] == "float64" and draw(st.sampled_from([False, False, False, False, True]))
    if small:
        # a fixed step below the default dt_min (1e-5): dt_min belongs to adaptive stepping only (float64 times near the
        # origin only: such a step is below the time resolution of float32 or of |t| ~ 1e3)
        dt_small = draw(st.sampled_from([2e-6, 5e-6, 8e-7]))
        nst = draw(st.integers(2, 12))
        tset = dict(tset, dt=dt_small, t1=tset["t0"] + (nst + draw(st.sampled_from([0.0, 0.5]))) * dt_small)
    if not small and draw(st.sampled_from([False, False, False, True])):
        # times far from zero: |t| / dt is what decides how much precision time differences carry in the state's dtype
        shift = draw(st.sampled_from([100.0, 1000.0, 86400.0]))
        tset = dict(tset, t0=tset["t0"] + shift, t1=tset["t1"] + shift, shifted=True)

    def out_times():
        k = draw(st.integers(0, 6))
        fr = draw(st.lists(st.one_of(st.floats(0.001, 0.999), st.sampled_from([0.25, 0.5, 0.75])),
                           min_size=k, max_size=k))
        return fr

    # fractions of [t0, t1]; "g:<k>" entries are replaced by grid points at run time
    fa, fb = out_times(), out_times()
    shared = draw(st.lists(st.floats(0.001, 0.999), min_size=0, max_size=3))
    ngrid = draw(st.lists(st.integers(0, 1000), min_size=0, max_size=3))
    same_step = draw(st.booleans())
    return {"spec": spec, "combo": combo, "time": tset, "fa": fa, "fb": fb, "shared": shared, "grid_picks": ngrid,
            "same_step": same_step, "entropy": draw(st.integers(0, 2 ** 31 - 2)),
            "ts_form": draw(st.sampled_from(["tensor", "tensor", "list", "tuple", "f64tensor"]))}


def strategy(tier):
    return _case(tier)


def enumerate_cases(tier):
    """Every accepted cell once, with a clipped last step, outputs inside steps and two outputs in one step."""
    for rnd, spec, combo in solve.enumerate_cells(7001, all_levy=False):
        dt = rnd.choice([0.1, 0.3, 0.125, 1 / 3])
        n = rnd.randint(3, 9)
        yield {"spec": spec, "combo": combo, "time": {"t0": rnd.choice([0.0, 0.1, -0.5]), "t1": 0.0, "dt": dt,
                                                      "tdtype": spec["dtype"], "_n": n},
               "fa": [0.37, 0.81], "fb": [0.12, 0.5, 0.93], "shared": [0.6], "grid_picks": [1, 3], "same_step": True,
               "entropy": rnd.randrange(2 ** 31 - 2), "ts_form": rnd.choice(["tensor", "list", "tuple"])}
        # the same cell with a drift that returns its input tensor and a diffusion that returns a stored tensor: whatever the
        # user's f and g hand back is read-only for the solver
        yield {"spec": dict(spec, f_alias=True, gstored=True), "combo": combo,
               "time": {"t0": 0.0, "t1": 0.0, "dt": dt, "tdtype": spec["dtype"], "_n": n},
               "fa": [0.37], "fb": [0.5], "shared": [], "grid_picks": [1], "same_step": False,
               "entropy": rnd.randrange(2 ** 31 - 2), "ts_form": "tensor"}


def _ts_values(case, grid_f, fr):
    t0, t1 = case["time"]["t0"], case["time"]["t1"]
    vals = {t0, t1}
    for f in list(fr) + list(case["shared"]):
        vals.add(t0 + (t1 - t0) * f)
    for k in case["grid_picks"]:
        vals.add(grid_f[k % len(grid_f)])
    if case["same_step"] and len(grid_f) >= 2:
        a, b = grid_f[0], grid_f[1]
        vals.add(a + (b - a) * 0.3)
        vals.add(a + (b - a) * 0.6)
    return sorted(v for v in vals if t0 <= v <= t1)


def run_case(case):
    import torchsde
    spec, combo, tm = case["spec"], case["combo"], case["time"]
    if "_n" in tm:                      # enumerated cells: horizon = (n + 0.4) steps, i.e. a clipped last step
        tm = dict(tm, t1=tm["t0"] + (tm["_n"] + 0.4) * tm["dt"])
        case = dict(case, time=tm)
    dtype = getattr(torch, spec["dtype"])
    tdtype = torch.float64 if case["ts_form"] == "f64tensor" else dtype
    eps = torch.finfo(dtype).eps
    sde = sdes.build_generic(spec)
    y0 = sdes.y0_for(spec)
    y0_before = y0.clone()
    dt = tm["dt"]
    sig = {"method": combo["method"], "noise_type": spec["noise_type"], "dtype": spec["dtype"]}
    grid = solve.fixed_grid(tm["t0"], tm["t1"], dt, tdtype)
    grid_f = [float(g) for g in grid]
    if len(grid) < 2 or not grid_f[0] < grid_f[-1]:
        return Result(labels=["degenerate_time_setup"])
    t0f, t1f = grid_f[0], grid_f[-1]
    case = dict(case)
    case["time"] = dict(tm, t0=t0f, t1=t1f)

    def mk_ts(vals):
        tt = torch.tensor(vals, dtype=tdtype)
        keep = [0] + [i for i in range(1, len(vals)) if float(tt[i]) > float(tt[i - 1])]
        tt = tt[keep]
        tt = tt[[i for i in range(len(tt)) if i == 0 or float(tt[i]) > float(tt[i - 1])]]
        form = case["ts_form"]
        if form in ("list", "tuple"):
            lst = [float(v) for v in tt]
            return (lst if form == "list" else tuple(lst)), tt
        return tt, tt

    checks = 0

    def solve_with(ts_arg):
        with torch.no_grad():
            ys, rec = solve.run(torchsde, sde, y0, ts_arg, combo, dt, entropy=case["entropy"], record=True,
                                bm=sdes.make_bm(torchsde, spec, t0f, t1f, case["entropy"], levy=combo["levy"]))
        return ys, rec

    def fail(clause, msg):
        return Result(nontrivial=True, checks=checks, fail=Fail(clause, msg, sig))

    # the grid actually used: the Brownian query log of the plain run over [t0, t1]; it must be the prescribed grid
    # ts[0] + k dt with the last step clipped (whether the implementation accumulates t_k + dt or multiplies k*dt is its
    # business: a few ulp of slack), contiguous and strictly increasing
    gbuf_before = sde.gbuf.clone()
    ys0, rec0 = solve_with(torch.stack([grid[0], grid[-1]]))
    log0 = [(a, b) for a, b, *_ in rec0.log]
    if spec.get("gstored"):
        checks += 1
        if not torch.equal(sde.gbuf, gbuf_before):
            return fail("sde_state_modified", f"sdeint overwrote the tensor returned by the SDE's g in place "
                                              f"({solve.combo_label(combo)})")
        twin = sdes.build_generic(dict(spec, gstored="clone"))
        with torch.no_grad():
            ys_twin, _ = solve.run(torchsde, twin, y0, torch.stack([grid[0], grid[-1]]), combo, dt,
                                   bm=sdes.make_bm(torchsde, spec, t0f, t1f, case["entropy"], levy=combo["levy"]))
        checks += 1
        if not torch.equal(ys0, ys_twin):
            return fail("aliasing_changes_solution", f"the solution depends on whether g returns a stored tensor or a fresh "
                                                     f"copy of it ({solve.combo_label(combo)}): max diff "
                                                     f"{float((ys0 - ys_twin).abs().max()):.3e}")
    teps = torch.finfo(tdtype).eps
    checks += 1
    ok = len(log0) == len(grid) - 1 and log0[0][0] == t0f and log0[-1][1] == t1f and \
        all(x[1] == y[0] for x, y in zip(log0[:-1], log0[1:])) and all(a < b for a, b in log0)
    if ok:
        ok = all(abs(b - g) <= 8 * teps * max(1.0, abs(g), abs(t0f)) for (_, b), g in zip(log0, grid_f[1:]))
    if not ok:
        k = next((i for i, ((_, b), g) in enumerate(zip(log0, grid_f[1:])) if b != g), min(len(log0), len(grid_f) - 1))
        return fail("step_grid", f"steps taken {log0[:3]}...{log0[-2:]} ({len(log0)} steps) are not the grid ts[0]+k*dt "
                                 f"clipped at ts[-1] ({len(grid) - 1} steps; first deviation at step {k})")
    grid_f = [log0[0][0]] + [b for _, b in log0]
    grid = [torch.tensor(g, dtype=tdtype) for g in grid_f]
    # reference: ts = the grid itself
    ts_grid = torch.stack(grid)
    ys_grid, rec_grid = solve_with(ts_grid)
    log_grid = [(a, b) for a, b, *_ in rec_grid.log]
    want_log = log0
    checks += 1
    if log_grid != want_log:
        return fail("step_grid_depends_on_ts", f"steps taken depend on the output times: {len(log_grid)} steps with ts = "
                                               f"grid vs {len(want_log)} with ts = [t0, t1]")
    # independent driver: the same solver class stepped by the harness over that grid, state by state (does not use
    # BaseSDESolver.integrate, so a mislabelled step or a wrong interpolation bracket cannot hide in the reference)
    from torchsde._core import base_sde, methods as _methods
    bm_drv = sdes.make_bm(torchsde, spec, t0f, t1f, case["entropy"], levy=combo["levy"])
    cls = _methods.select(combo["method"], spec["sde_type"])
    drv = cls(sde=base_sde.ForwardSDE(sde), bm=bm_drv, dt=dt, adaptive=False, rtol=1e-3, atol=1e-3, dt_min=1e-5,
              options=dict(combo["options"]))
    with torch.no_grad():
        state = y0
        extra = drv.init_extra_solver_state(grid[0], y0)
        for k in range(len(grid) - 1):
            state, extra = drv.step(grid[k], grid[k + 1], state, extra)
            checks += 1
            scale = max(1.0, float(state.abs().max()))
            e = float((ys_grid[k + 1] - state).abs().max()) / scale
            # an output at a grid time IS the grid state: the value the step returned, not a floating-point re-combination
            # of it with the previous state
            if not torch.equal(ys_grid[k + 1], state):
                return fail("grid_state_vs_independent_driver",
                            f"state at grid time {grid_f[k + 1]} (step {k + 1} of {len(grid) - 1}) differs from the state "
                            f"obtained by stepping the solver directly over the grid: rel {e:.3e}")
    inside = two_in_step = False
    results = {}
    for name, fr in (("A", case["fa"]), ("B", case["fb"])):
        vals = _ts_values(case, grid_f, fr)
        ts_arg, tt = mk_ts(vals)
        if len(tt) < 2:
            continue
        ts_before = ts_arg.clone() if torch.is_tensor(ts_arg) else list(ts_arg)
        ys, rec = solve_with(ts_arg)
        checks += 1
        same_ts = torch.equal(ts_arg, ts_before) if torch.is_tensor(ts_arg) else list(ts_arg) == ts_before
        if not torch.equal(y0, y0_before) or not same_ts:
            return fail("inputs_mutated", f"sdeint modified its {'y0' if same_ts else 'ts'} argument in place "
                                          f"({solve.combo_label(combo)})")
        checks += 1
        if tuple(ys.shape) != (len(tt), spec["batch"], spec["d"]) or ys.dtype != dtype:
            return fail("shape_dtype", f"result has shape {tuple(ys.shape)} dtype {ys.dtype} for {len(tt)} output times "
                                       f"(ts given as {case['ts_form']})")
        log = [(a, b) for a, b, *_ in rec.log]
        checks += 1
        if log != want_log:
            return fail("step_grid_depends_on_ts", f"steps taken depend on the output times: {len(log)} steps vs "
                                                   f"{len(want_log)} on the dt grid")
        checks += 1
        if not torch.equal(ys[0], y0_before):
            return fail("ys0_is_y0", "ys[0] is not y0 bit-for-bit")
        per_step = {}
        for i in range(1, len(tt)):
            t = tt[i]
            tf = float(t)
            # locate the step (grid[k], grid[k+1]] containing t
            k = max(j for j in range(len(grid) - 1) if grid_f[j] < tf)
            if tf == grid_f[k + 1]:
                checks += 1
                if not torch.equal(ys[i], ys_grid[k + 1]):
                    return fail("grid_time_output", f"output at grid time {tf} differs from the grid state "
                                                    f"(max diff {float((ys[i] - ys_grid[k + 1]).abs().max()):.3e})")
            else:
                inside = True
                per_step[k] = per_step.get(k, 0) + 1
                ta, tb = grid[k], grid[k + 1]
                want = (tb - t) / (tb - ta) * ys_grid[k] + (t - ta) / (tb - ta) * ys_grid[k + 1]
                scale = max(float(ys_grid[k].abs().max()), float(ys_grid[k + 1].abs().max()), 1e-30)
                e = float((ys[i] - want).abs().max()) / scale
                checks += 1
                if not e <= 4 * eps:
                    return fail("interior_interpolant", f"output at {tf} inside step [{float(ta)}, {float(tb)}] is not "
                                                        f"the linear interpolant of the grid states: rel {e:.3e}")
        if any(v >= 2 for v in per_step.values()):
            two_in_step = True
        results[name] = (tt, ys)
    if "A" in results and "B" in results:
        (ta_, ya), (tb_, yb) = results["A"], results["B"]
        idx_b = {float(t): i for i, t in enumerate(tb_)}
        for i, t in enumerate(ta_):
            j = idx_b.get(float(t))
            if j is not None:
                checks += 1
                if not torch.equal(ya[i], yb[j]):
                    return fail("output_time_invariance", f"value at shared time {float(t)} changes when other output "
                                                          f"times are added/removed/moved")
    clipped = abs((grid_f[-1] - grid_f[-2]) - dt) > 1e-6 * dt if len(grid_f) >= 2 else False
    labels = [solve.combo_label(combo), f"dtype={spec['dtype']}", f"ts_form={case['ts_form']}"]
    for flag, nm in ((inside, "interior_output"), (two_in_step, "two_outputs_in_one_step"), (clipped, "clipped_last_step")):
        if flag:
            labels.append(nm)
    return Result(nontrivial=inside and (two_in_step or clipped), labels=labels, checks=checks,
                  metrics={"steps": len(want_log)})
