"""C12 - outputs lie on one dt-grid trajectory: interpolation and output-time invariance."""
import torch
from hypothesis import strategies as st

from .. import sdes, solve
from ..core import Fail, Result

ID = "C12"
RULE = ("case = generic SDE (4 noise types, both calculi) x accepted (method, options, Levy mode) x (t0, dt, t1 with "
        "aligned or fractional last step) x two drawn output-time vectors A and B sharing end points (strictly inside "
        "steps, several per step, on grid points, dt larger than gaps) x float32/float64 x ts given as tensor/list/"
        "tuple/float64-tensor-with-float32-state. Oracles: the Brownian query log equals the grid t_{k+1}=min(t_k+dt,"
        " ts[-1]) accumulated in ts's dtype and is identical for A and B; ys[0] is y0 bit-exact; outputs at grid times "
        "equal the states of the run whose ts is the grid itself (bit-exact); interior outputs equal the linear "
        "interpolant recomputed from that run (4 ulp); values at times shared by A and B are bit-identical; shape "
        "(len(ts), batch, d) and dtype of y0. Non-trivial = an output strictly inside a step and (two outputs in one "
        "step or a last step clipped); distinct = distinct canonical case JSON.")
ASSUMPTIONS = ["the reference trajectory is the same code run with ts = the grid; the grid itself is recomputed "
               "independently from the property's rule"]
BUDGET = {
    "quick": {"examples": 200, "shards": 4, "case_timeout": 60, "wall_budget": 240},
    "thorough": {"examples": 5000, "shards": 16, "case_timeout": 120, "wall_budget": 1800},
}
TOLERANCES = {"grid_states/shared_times/ys0": "bit-identical", "interior_interpolant": "4 ulp (relative 4*eps)"}


@st.composite
def _case(draw, tier):
    spec, combo = draw(solve.spec_and_combo(dtypes=("float64", "float32")))
    tset = draw(solve.time_setup(max_steps=24 if tier == "quick" else 64, dtypes=(spec["dtype"],)))

    def out_times():
        k = draw(st.integers(0, 6))
        fr = draw(st.lists(st.one_of(st.floats(0.001, 0.999), st.sampled_from([0.25, 0.5, 0.75])),
                           min_size=k, max_size=k))
        return fr

    # fractions of [t0, t1]; "g:<k>" entries are replaced by grid points at run time
    fa, fb = out_times(), out_times()
    shared = draw(st.lists(st.floats(0.001, 0.999), min_size=0, max_size=3))
    ngrid = draw(st.lists(st.integers(0, 1000), min_size=0, max_size=3))
    same_step = draw(st.booleans())
    return {"spec": spec, "combo": combo, "time": tset, "fa": fa, "fb": fb, "shared": shared, "grid_picks": ngrid,
            "same_step": same_step, "entropy": draw(st.integers(0, 2 ** 31 - 2)),
            "ts_form": draw(st.sampled_from(["tensor", "tensor", "list", "tuple", "f64tensor"]))}


def strategy(tier):
    return _case(tier)


def _ts_values(case, grid_f, fr):
    t0, t1 = case["time"]["t0"], case["time"]["t1"]
    vals = {t0, t1}
    for f in list(fr) + list(case["shared"]):
        vals.add(t0 + (t1 - t0) * f)
    for k in case["grid_picks"]:
        vals.add(grid_f[k % len(grid_f)])
    if case["same_step"] and len(grid_f) >= 2:
        a, b = grid_f[0], grid_f[1]
        vals.add(a + (b - a) * 0.3)
        vals.add(a + (b - a) * 0.6)
    return sorted(v for v in vals if t0 <= v <= t1)


def run_case(case):
    import torchsde
    spec, combo, tm = case["spec"], case["combo"], case["time"]
    dtype = getattr(torch, spec["dtype"])
    tdtype = torch.float64 if case["ts_form"] == "f64tensor" else dtype
    eps = torch.finfo(dtype).eps
    sde = sdes.build_generic(spec)
    y0 = sdes.y0_for(spec)
    dt = tm["dt"]
    sig = {"method": combo["method"], "noise_type": spec["noise_type"], "dtype": spec["dtype"]}
    grid = solve.fixed_grid(tm["t0"], tm["t1"], dt, tdtype)
    grid_f = [float(g) for g in grid]
    if len(grid) < 2 or not grid_f[0] < grid_f[-1]:
        return Result(labels=["degenerate_time_setup"])
    t0f, t1f = grid_f[0], grid_f[-1]
    case = dict(case)
    case["time"] = dict(tm, t0=t0f, t1=t1f)

    def mk_ts(vals):
        tt = torch.tensor(vals, dtype=tdtype)
        keep = [0] + [i for i in range(1, len(vals)) if float(tt[i]) > float(tt[i - 1])]
        tt = tt[keep]
        tt = tt[[i for i in range(len(tt)) if i == 0 or float(tt[i]) > float(tt[i - 1])]]
        form = case["ts_form"]
        if form in ("list", "tuple"):
            lst = [float(v) for v in tt]
            return (lst if form == "list" else tuple(lst)), tt
        return tt, tt

    checks = 0

    def solve_with(ts_arg):
        with torch.no_grad():
            ys, rec = solve.run(torchsde, sde, y0, ts_arg, combo, dt, entropy=case["entropy"], record=True,
                                bm=sdes.make_bm(torchsde, spec, t0f, t1f, case["entropy"], levy=combo["levy"]))
        return ys, rec

    # reference: ts = the grid itself
    ts_grid = torch.stack(grid)
    ys_grid, rec_grid = solve_with(ts_grid)
    log_grid = [(a, b) for a, b, *_ in rec_grid.log]
    want_log = list(zip(grid_f[:-1], grid_f[1:]))

    def fail(clause, msg):
        return Result(nontrivial=True, checks=checks, fail=Fail(clause, msg, sig))

    checks += 1
    if log_grid != want_log:
        k = next((i for i, (x, y) in enumerate(zip(log_grid, want_log)) if x != y), min(len(log_grid), len(want_log)))
        return fail("step_grid", f"Brownian query log deviates from the grid t_k+dt at step {k}: "
                                 f"{log_grid[k] if k < len(log_grid) else None} vs {want_log[k] if k < len(want_log) else None}"
                                 f" ({len(log_grid)} vs {len(want_log)} steps)")
    inside = two_in_step = False
    results = {}
    for name, fr in (("A", case["fa"]), ("B", case["fb"])):
        vals = _ts_values(case, grid_f, fr)
        ts_arg, tt = mk_ts(vals)
        if len(tt) < 2:
            continue
        ys, rec = solve_with(ts_arg)
        checks += 1
        if tuple(ys.shape) != (len(tt), spec["batch"], spec["d"]) or ys.dtype != dtype:
            return fail("shape_dtype", f"result has shape {tuple(ys.shape)} dtype {ys.dtype} for {len(tt)} output times "
                                       f"(ts given as {case['ts_form']})")
        log = [(a, b) for a, b, *_ in rec.log]
        checks += 1
        if log != want_log:
            return fail("step_grid_depends_on_ts", f"steps taken depend on the output times: {len(log)} steps vs "
                                                   f"{len(want_log)} on the dt grid")
        checks += 1
        if not torch.equal(ys[0], y0):
            return fail("ys0_is_y0", "ys[0] is not y0 bit-for-bit")
        per_step = {}
        for i in range(1, len(tt)):
            t = tt[i]
            tf = float(t)
            # locate the step (grid[k], grid[k+1]] containing t
            k = max(j for j in range(len(grid) - 1) if grid_f[j] < tf)
            if tf == grid_f[k + 1]:
                checks += 1
                if not torch.equal(ys[i], ys_grid[k + 1]):
                    return fail("grid_time_output", f"output at grid time {tf} differs from the grid state "
                                                    f"(max diff {float((ys[i] - ys_grid[k + 1]).abs().max()):.3e})")
            else:
                inside = True
                per_step[k] = per_step.get(k, 0) + 1
                ta, tb = grid[k], grid[k + 1]
                want = (tb - t) / (tb - ta) * ys_grid[k] + (t - ta) / (tb - ta) * ys_grid[k + 1]
                scale = max(float(ys_grid[k].abs().max()), float(ys_grid[k + 1].abs().max()), 1e-30)
                e = float((ys[i] - want).abs().max()) / scale
                checks += 1
                if not e <= 4 * eps:
                    return fail("interior_interpolant", f"output at {tf} inside step [{float(ta)}, {float(tb)}] is not "
                                                        f"the linear interpolant of the grid states: rel {e:.3e}")
        if any(v >= 2 for v in per_step.values()):
            two_in_step = True
        results[name] = (tt, ys)
    if "A" in results and "B" in results:
        (ta_, ya), (tb_, yb) = results["A"], results["B"]
        idx_b = {float(t): i for i, t in enumerate(tb_)}
        for i, t in enumerate(ta_):
            j = idx_b.get(float(t))
            if j is not None:
                checks += 1
                if not torch.equal(ya[i], yb[j]):
                    return fail("output_time_invariance", f"value at shared time {float(t)} changes when other output "
                                                          f"times are added/removed/moved")
    clipped = abs((grid_f[-1] - grid_f[-2]) - dt) > 1e-6 * dt if len(grid_f) >= 2 else False
    labels = [solve.combo_label(combo), f"dtype={spec['dtype']}", f"ts_form={case['ts_form']}"]
    for flag, nm in ((inside, "interior_output"), (two_in_step, "two_outputs_in_one_step"), (clipped, "clipped_last_step")):
        if flag:
            labels.append(nm)
    return Result(nontrivial=inside and (two_in_step or clipped), labels=labels, checks=checks,
                  metrics={"steps": len(want_log)})
