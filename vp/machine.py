"""Rule-based state machine over one Brownian object (Hypothesis stateful mode) - second engine for C03/C05/C07.

The machine draws a configuration, then interleaves rules whose arguments depend on the history so far (end points and
whole queries are kept in Bundles, so 're-ask an earlier query', 'split an earlier query at an earlier end point' and
'continue from where the last query ended' are first-class moves). Invariants after every step:
  * C05: a query asked before returns bit-identical tensors;
  * C03: W(s,t) = W(s,u) + W(u,t) and the U relation for the split rule (256 eps);
  * C07: every call returns, len(cache) <= cache_size.
Every executed call is appended to `ops` as a raw op, so a failing run is saved as an ordinary C05/C03 replay file.
"""
import torch
from hypothesis import strategies as st
from hypothesis.stateful import Bundle, RuleBasedStateMachine, initialize, invariant, precondition, rule

from . import history

LAST = {"ops": None, "cfg": None, "fail": None, "steps": 0, "machines": 0, "repeats": 0, "far_repeats": 0,
        "splits": 0, "labels": {}}


class Violation(AssertionError):
    pass


def make_machine(torchsde, property_id):
    class BrownianMachine(RuleBasedStateMachine):
        points = Bundle("points")
        queries = Bundle("queries")

        def __init__(self):
            super().__init__()
            self.bm = None
            self.ops = []
            self.first = {}
            self.order = []
            self.last_end = None

        @initialize(cfg=history.configs(wrappers=("interval", "interval", "interval", "reverse", "reverse2", "tree", "path")))
        def setup(self, cfg):
            self.cfg = cfg
            self.bm, self.interval, self.meta = history.build(cfg, torchsde, torch)
            self.eps = torch.finfo(getattr(torch, cfg["dtype"])).eps
            self.span = cfg["t1"] - cfg["t0"]
            LAST["machines"] += 1
            LAST["labels"][f"wrapper={cfg['wrapper']}"] = LAST["labels"].get(f"wrapper={cfg['wrapper']}", 0) + 1
            LAST["labels"][f"cache={cfg['cache_size']}"] = LAST["labels"].get(f"cache={cfg['cache_size']}", 0) + 1

        # ---- helpers --------------------------------------------------------------------------------------------
        def _fail(self, clause, msg):
            LAST.update(ops=list(self.ops), cfg=dict(self.cfg), fail=(clause, msg))
            raise Violation(f"{clause}: {msg}")

        def _ask(self, a, b):
            self.ops.append(["raw", a, b])
            LAST["steps"] += 1
            err = None
            try:
                got = self.bm(a, b)
            except Exception as e:  # noqa
                err = f"bm({a!r},{b!r}) raised {type(e).__name__}: {str(e)[:120]}", type(e).__name__
            if err is not None:
                # raised outside the except block: no exception context (its location varies from run to run, which
                # Hypothesis would report as a flaky failure)
                self._fail(f"crash:{err[1]}", err[0])
            key = (a, b)
            if key in self.first:
                idx, ref = self.first[key]
                LAST["repeats"] += 1
                cs = self.cfg["cache_size"]
                if cs is not None and len(self.order) - idx - 1 > cs:
                    LAST["far_repeats"] += 1
                for name, x, y in zip("WUA", got, ref):
                    if (x is None) != (y is None) or (x is not None and not torch.equal(x, y)):
                        self._fail(f"repeat_differs:{name}", f"query {key} returned a different {name} than the first time")
            else:
                self.first[key] = (len(self.order), got)
                self.order.append(key)
            self.last_end = b
            return got

        # ---- rules ----------------------------------------------------------------------------------------------
        @rule(target=points, i=st.integers(0, 10 ** 6))
        def new_point(self, i):
            return history.time_of(self.cfg, i % (self.cfg["grid"] + 1))

        @rule(target=queries, a=points, b=points)
        def query(self, a, b):
            a, b = min(a, b), max(a, b)
            self._ask(a, b)
            return (a, b)

        @rule(q=queries)
        def requery(self, q):
            self._ask(*q)

        @rule(target=queries, b=points)
        def continue_from_last(self, b):
            a = self.last_end if self.last_end is not None else self.cfg["t0"]
            a, b = min(a, b), max(a, b)
            self._ask(a, b)
            return (a, b)

        @rule(q=queries, u=points, frac=st.integers(1, 99), use_point=st.booleans())
        def split(self, q, u, frac, use_point):
            s, t = q
            if not (use_point and s < u < t):
                u = s + (t - s) * frac / 100.0
                if self.cfg["tol"] > 0:
                    u = round(u, history.ndigits_of(self.cfg["tol"]))
            if not (s < u < t):
                return
            Wst, Ust, _ = self._ask(s, t)
            Wsu, Usu, _ = self._ask(s, u)
            Wut, Uut, _ = self._ask(u, t)
            LAST["splits"] += 1
            scale = max(1.0, self.span ** 0.5, float(Wst.abs().max()) if Wst.numel() else 0.0)
            e = float((Wst - (Wsu + Wut)).abs().max()) / scale if Wst.numel() else 0.0
            if not e <= 256 * self.eps:
                self._fail("additivity:W", f"W({s},{t}) != W({s},{u}) + W({u},{t}): rel {e:.3e}")
            if Ust is not None:
                rhs = Usu + Uut + (t - u) * Wsu
                sc = max(1.0, self.span) * max(1.0, float(rhs.abs().max()) if rhs.numel() else 0.0)
                e = float((Ust - rhs).abs().max()) / sc if rhs.numel() else 0.0
                if not e <= 256 * self.eps:
                    self._fail("additivity:U", f"U relation fails on ({s},{u},{t}): rel {e:.3e}")

        @rule(a=points, n=st.integers(2, 40), w=st.integers(1, 2000), back=st.booleans())
        def sweep(self, a, n, w, back):
            h = self.span * w / 10 ** 5
            pts = [a + k * h for k in range(n + 1)]
            if self.cfg["tol"] > 0:
                nd = history.ndigits_of(self.cfg["tol"])
                pts = [round(p, nd) for p in pts]
            pts = [p for p in pts if p <= self.cfg["t1"]]
            pairs = list(zip(pts[:-1], pts[1:]))
            for (x, y) in (reversed(pairs) if back else pairs):
                if x <= y:
                    self._ask(x, y)

        @rule(p=points)
        def zero_length(self, p):
            W, U, A = self._ask(p, p)
            for name, x in (("W", W), ("U", U), ("A", A)):
                if x is not None and bool((x != 0).any()):
                    self._fail(f"zero_length:{name}", f"bm({p},{p}) returned non-zero {name}")

        # ---- invariants -----------------------------------------------------------------------------------------
        @invariant()
        def cache_bounded(self):
            if self.bm is None:
                return
            cs = self.cfg["cache_size"]
            c = getattr(self.interval, "_increment_and_space_time_levy_area_cache", None)
            try:
                n = len(c)
            except TypeError:
                n = 0
            if cs is not None and n > cs:
                self._fail("cache_bound", f"cache holds {n} entries > cache_size={cs}")

    BrownianMachine.__name__ = f"BrownianMachine_{property_id}"
    return BrownianMachine


def run(torchsde, property_id, seed, max_examples, steps, shrink=False):
    """Run the machine; returns (violation_or_None, coverage dict). A violation is {'case', 'clause', 'msg'}."""
    import hypothesis
    from hypothesis import HealthCheck, settings
    from hypothesis.stateful import run_state_machine_as_test
    for k in ("ops", "cfg", "fail"):
        LAST[k] = None
    LAST.update(steps=0, machines=0, repeats=0, far_repeats=0, splits=0, labels={})
    from hypothesis import Phase
    from . import brownian_tools
    machine = hypothesis.seed(seed)(make_machine(torchsde, property_id))
    phases = [Phase.generate, Phase.shrink] if shrink else [Phase.generate]
    try:
        with brownian_tools.node_budget(200000):
            run_state_machine_as_test(machine, settings=settings(
                max_examples=max_examples, stateful_step_count=steps, deadline=None, database=None, phases=phases,
                report_multiple_bugs=False, print_blob=False, suppress_health_check=list(HealthCheck)))
        viol = None
    except Violation:
        clause, msg = LAST["fail"]
        viol = {"case": {"kind": "history", "cfg": LAST["cfg"], "ops": LAST["ops"], "perm": 0, "seed": 0, "ntriples": 4},
                "clause": clause, "msg": msg}
    cov = {"state_machine_runs": LAST["machines"], "state_machine_calls": LAST["steps"],
           "state_machine_repeats_checked": LAST["repeats"], "state_machine_repeats_after_eviction": LAST["far_repeats"],
           "state_machine_splits_checked": LAST["splits"], "state_machine_label_histogram": dict(LAST["labels"])}
    return viol, cov
