#!/bin/bash
# usage: tools_mutant.sh <patchfile|-R commit> <PROP> [extra check args]  -- apply a patch to a scratch worktree of /repo and run one check
# (development helper; not registered in MANIFEST)
set -e
WT=$(mktemp -d /tmp/wt.XXXXXX)
git -C /repo worktree add -q --detach "$WT" HEAD
trap 'git -C /repo worktree remove --force "$WT"' EXIT
if [ "$1" = "-R" ]; then
  git -C "$WT" revert --no-commit "$2" ; shift 2
else
  git -C "$WT" apply "$1"; shift
fi
PROP=$1; shift
VERIF_REPO="$WT" VERIF_OUT="$WT/.verif_out" /verif/check "$PROP" "$@" | grep -E "VIOLATION|KNOWN|HARNESS|clause|^\[" | cut -c1-300
