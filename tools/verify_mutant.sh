#!/bin/bash
# usage: tools/verify_mutant.sh <PROP> <name> <dir with patch.diff demo.py [notes.md]> [checks to run, default "<PROP>"]
# Confirms a property-breaking change independently: demo passes on clean code, fails with the change, the repository's
# test-suite passes with the change (SKIP_SUITE=1 to skip; suite imports the scratch tree through PYTHONPATH); then runs our
# check(s) against it (TIER=quick by default). Writes /verif/seeded/<PROP>-<name>/{patch.diff,demo.py,notes.md,meta.json}.
# Everything happens in a scratch worktree under /tmp that is removed at the end. Development helper (not in MANIFEST).
set -u
PROP=$1; NAME=$2; SRC=$(readlink -f "$3"); CHECKS=${4:-$PROP}
PATCH=$SRC/patch.diff; DEMO=$SRC/demo.py
VERIF=$(cd "$(dirname "$0")/.." && pwd)
WT=$(mktemp -d /tmp/vm.XXXXXX)
OUT=$VERIF/seeded/$PROP-$NAME
mkdir -p "$OUT"
git -C /repo worktree add -q --detach "$WT" HEAD || exit 2
trap 'git -C /repo worktree remove --force "$WT"' EXIT
cd "$WT"
export OMP_NUM_THREADS=2 PYTHONPATH="$WT" TORCHSDE_DIR="$WT"
timeout 900 /venv/bin/python "$DEMO" > "$OUT/demo_clean.log" 2>&1; rc_clean=$?
if ! git apply --check "$PATCH" 2>/dev/null; then echo "$PROP-$NAME: patch does not apply"; rm -rf "$OUT"; exit 3; fi
git apply "$PATCH"
timeout 900 /venv/bin/python "$DEMO" > "$OUT/demo_mutant.log" 2>&1; rc_mut=$?
if [ "${SKIP_SUITE:-0}" = "1" ]; then suite="skipped"; else
  suite=$(timeout 3000 /venv/bin/python -m pytest -q -p no:cacheprovider --timeout=900 -x 2>&1 | tail -1)
fi
det=""
for c in $CHECKS; do
  r=$(VERIF_REPO="$WT" VERIF_OUT="$WT/.verif_out" "$VERIF/check" $c --tier ${TIER:-quick} 2>&1 | grep -E "VIOLATION|clause=|^\[|HARNESS" | tr '\n' ' ' | cut -c1-500)
  det="$det$c: $r ;; "
done
cp "$PATCH" "$OUT/patch.diff"; cp "$DEMO" "$OUT/demo.py"; [ -f "$SRC/notes.md" ] && cp "$SRC/notes.md" "$OUT/notes.md"
python3 - "$OUT" "$PROP" "$NAME" "$rc_clean" "$rc_mut" "$suite" "$det" <<'PY'
import json, os, sys
out, prop, name, rc_clean, rc_mut, suite, det = sys.argv[1:]
notes = open(out + "/notes.md").read() if os.path.exists(out + "/notes.md") else ""
st = json.load(open(os.path.join(os.path.dirname(os.path.dirname(out)), "tools", "seeded_status.json")))
key = f"{prop}-{name}"
first = ("missed by the checks as they were; generator/oracle strengthened, now detected" if key in st["missed_then_strengthened"]
         else "check strengthened from the author's description before the first run; now detected"
         if key in st["strengthened_from_description_before_first_run"] else "detected at the first run")
prev = {}
if os.path.exists(out + "/meta.json"):
    try:
        prev = json.load(open(out + "/meta.json"))
    except Exception:
        prev = {}
if suite == "skipped" and prev.get("repo_test_suite_with_change", "skipped") != "skipped":
    suite = prev["repo_test_suite_with_change"]          # keep the result of an earlier full-suite run (tools/suite_mutant.sh)
meta = {"property": prop, "name": name, "breaks": prop, "needs_to_manifest": notes.strip()[:1500],
        "demo_exit_clean": int(rc_clean), "demo_exit_with_change": int(rc_mut),
        "repo_test_suite_with_change": suite, "checks_against_change": det,
        "detected": "VIOLATION" in det, "first_round_status": first,
        "commands": ["git -C /repo worktree add --detach <wt> HEAD", "PYTHONPATH=<wt> python demo.py  (clean)", "git apply patch.diff",
                     "PYTHONPATH=<wt> python demo.py  (changed)", "PYTHONPATH=<wt> python -m pytest -q -p no:cacheprovider --timeout=900 -x",
                     "VERIF_REPO=<wt> ./check <PROP> --tier quick"]}
for keep in ("suite_imported_torchsde_from", "note", "neutralised_by_fix"):
    if keep in prev:
        meta[keep] = prev[keep]
json.dump(meta, open(out + "/meta.json", "w"), indent=1)
print(f"{prop}-{name}: demo clean={rc_clean} changed={rc_mut} suite=[{suite}] :: {det}")
PY
