#!/bin/bash
# usage: tools/verify_mutant.sh <PROP> <name> <patch.diff> <demo.py> [checks to run, default "<PROP>"]
# Confirms a property-breaking change independently: demo passes on clean code, fails with the change, the repository's
# test-suite passes with the change; then runs our check(s) against it. Writes /verif/seeded/<PROP>-<name>/.
# Everything happens in a scratch worktree under /tmp that is removed at the end. Development helper (not in MANIFEST).
set -u
PROP=$1; NAME=$2; PATCH=$(readlink -f "$3"); DEMO=$(readlink -f "$4"); CHECKS=${5:-$PROP}
VERIF=$(cd "$(dirname "$0")/.." && pwd)
WT=$(mktemp -d /tmp/vm.XXXXXX)
OUT=$VERIF/seeded/$PROP-$NAME
mkdir -p "$OUT"
git -C /repo worktree add -q --detach "$WT" HEAD || exit 2
trap 'git -C /repo worktree remove --force "$WT"' EXIT
cd "$WT"
export OMP_NUM_THREADS=2 PYTHONPATH="$WT" TORCHSDE_DIR="$WT"
timeout 600 /venv/bin/python "$DEMO" > "$OUT/demo_clean.log" 2>&1; rc_clean=$?
if ! git apply --check "$PATCH" 2>/dev/null; then echo "$PROP-$NAME: patch does not apply"; rm -rf "$OUT"; exit 3; fi
git apply "$PATCH"
timeout 600 /venv/bin/python "$DEMO" > "$OUT/demo_mutant.log" 2>&1; rc_mut=$?
if [ "${SKIP_SUITE:-0}" = "1" ]; then suite="skipped"; else
  suite=$(timeout 3000 /venv/bin/python -m pytest -q -p no:cacheprovider --timeout=900 -x 2>&1 | tail -1)
fi
det=""
for c in $CHECKS; do
  r=$(VERIF_REPO="$WT" VERIF_OUT="$WT/.verif_out" "$VERIF/check" $c --tier quick 2>&1 | grep -E "VIOLATION|clause=|^\[" | tr '\n' ' ' | cut -c1-400)
  det="$det$c: $r ;; "
done
cp "$PATCH" "$OUT/patch.diff"; cp "$DEMO" "$OUT/demo.py"
python3 - "$OUT" "$PROP" "$NAME" "$rc_clean" "$rc_mut" "$suite" "$det" <<'PY'
import json, sys
out, prop, name, rc_clean, rc_mut, suite, det = sys.argv[1:]
meta = {"property": prop, "name": name, "demo_exit_clean": int(rc_clean), "demo_exit_with_change": int(rc_mut),
        "repo_test_suite_with_change": suite, "quick_checks_against_change": det,
        "commands": ["git -C /repo worktree add --detach <wt> HEAD", "python demo.py  (clean)", "git apply patch.diff",
                     "python demo.py  (changed)", "python -m pytest -q -p no:cacheprovider --timeout=900 -x",
                     "VERIF_REPO=<wt> ./check <PROP> --tier quick"]}
json.dump(meta, open(out + "/meta.json", "w"), indent=1)
print(f"{prop}-{name}: demo clean={rc_clean} changed={rc_mut} suite=[{suite}] :: {det}")
PY
