#!/usr/bin/env python3
"""Print the markdown table of DESIGN.md section 8 from seeded/*/meta.json."""
import glob, json, os, re
rows = []
for p in sorted(glob.glob(os.path.join(os.path.dirname(__file__), "..", "seeded", "*", "meta.json"))):
    m = json.load(open(p))
    notes = m.get("needs_to_manifest", "")
    first = next((l.strip("# ").strip() for l in notes.splitlines() if l.strip()), "")
    clauses = sorted(set(re.findall(r"clause=(\S+)", m.get("checks_against_change", ""))))
    rows.append((f"{m['property']}-{m['name']}", first[:150], ", ".join(clauses) or "—", m.get("first_round_status", ""),
                 m.get("repo_test_suite_with_change", "")[:40]))
print("| id | change (first line of the author's notes) | clause(s) that fire in the quick tier | status when first run | suite with change |")
print("|---|---|---|---|---|")
for r in rows:
    print("| " + " | ".join(r) + " |")
