#!/usr/bin/env python3
"""Print the markdown table of DESIGN.md section 8 from seeded/*/meta.json (and per-round statistics with --stats)."""
import glob, json, os, re, sys
HERE = os.path.dirname(os.path.abspath(__file__))
status = json.load(open(os.path.join(HERE, "seeded_status.json")))
missed = set(status["missed_then_strengthened"])
ROUND = {"a": 1, "b": 1, "c": 2, "d": 2, "e": 3, "f": 3, "g": 4, "h": 4, "i": 5, "j": 5, "k": 6, "l": 6}
rows, per_round = [], {}
for p in sorted(glob.glob(os.path.join(HERE, "..", "seeded", "*", "meta.json"))):
    m = json.load(open(p))
    key = f"{m['property']}-{m['name']}"
    notes = m.get("needs_to_manifest", "")
    first = next((l.strip("# *").strip() for l in notes.splitlines() if l.strip()), "")
    first = re.sub(r"^C\d\d\s*/\s*(change\s*)?[a-z]\s*[-:–—]+\s*", "", first)
    caught = []
    for part in m.get("checks_against_change", "").split(";;"):
        part = part.strip()
        if not part or "VIOLATION" not in part:
            continue
        chk = part.split(":", 1)[0].strip()
        cl = sorted(set(re.findall(r"clause=(\S+)", part)))
        caught.append(f"{chk}: {', '.join(cl)}" if cl else chk)
    r = ROUND.get(m["name"], 0)
    st = per_round.setdefault(r, {"n": 0, "missed_first": 0, "detected_now": 0, "suite_ok": 0})
    st["n"] += 1
    st["missed_first"] += key in missed
    st["detected_now"] += bool(caught) and not m.get("neutralised_by_fix")
    suite = m.get("repo_test_suite_with_change", "")
    st["suite_ok"] += (" passed" in suite and "failed" not in suite) or (suite == "skipped" and r <= 3)
    if suite == "skipped" and r <= 3:
        suite = "passed (full run by the author)"
    if m.get("neutralised_by_fix"):
        caught = []
    rows.append((key, str(r), first[:140].replace("|", "/"), "; ".join(caught).replace("|", "/") or
                 ("no longer breaks the property (neutralised by the repair of " + m["neutralised_by_fix"] + ")"
                  if m.get("neutralised_by_fix") else "**not detected**"),
                 "missed, then strengthened" if key in missed else "detected",
                 re.sub(r" in [\d.]+s.*", "", suite)[:34]))
if "--stats" in sys.argv:
    print("| round | changes | missed at first run (own-property check as it then was) | detected by the final checks | "
          "repository suite passes with the change |")
    print("|---|---|---|---|---|")
    for r in sorted(per_round):
        s = per_round[r]
        print(f"| {r} | {s['n']} | {s['missed_first']} | {s['detected_now']} | {s['suite_ok']} |")
else:
    print("| id | round | change (first line of the author's notes) | check: clause(s) that fire (quick tier) | first run | suite with change |")
    print("|---|---|---|---|---|---|")
    for r in rows:
        print("| " + " | ".join(r) + " |")
