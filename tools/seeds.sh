#!/bin/bash
# Development helper: run every quick check at several seeds, writing evidence/replays to a scratch dir.
cd "$(dirname "$0")/.."
OUT=${OUT:-/tmp/seedruns}
mkdir -p $OUT
for seed in "$@"; do
  for id in $(python3 -c "import json;print(' '.join(c['property_id'] for c in json.load(open('MANIFEST.json'))['checks']))"); do
    out=$(VERIF_SEED=$seed VERIF_OUT=$OUT/s$seed ./check $id --tier ${TIER:-quick} 2>&1); rc=$?
    echo "seed=$seed $id rc=$rc :: $(echo "$out" | grep -E '^\[' | tail -1)"
    [ $rc -ne 0 ] && echo "$out" | grep -vE '^\[' | cut -c1-400
  done
done
