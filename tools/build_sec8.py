#!/usr/bin/env python3
"""(Re)write section 8 of DESIGN.md from tools/sec8_head.md and seeded/*/meta.json. Development helper."""
import os
import re
import subprocess
import sys

HERE = os.path.dirname(os.path.abspath(__file__))
ROOT = os.path.dirname(HERE)
design = os.path.join(ROOT, "DESIGN.md")
s = open(design).read()
i = s.find("\n## 8. ")
if i >= 0:
    s = s[:i].rstrip("\n") + "\n"
head = open(os.path.join(HERE, "sec8_head.md")).read()
stats = subprocess.run([sys.executable, os.path.join(HERE, "seeded_table.py"), "--stats"], capture_output=True, text=True).stdout
table = subprocess.run([sys.executable, os.path.join(HERE, "seeded_table.py")], capture_output=True, text=True).stdout
cross = []
for line in table.splitlines()[2:]:
    cells = [c.strip() for c in line.strip("|").split("|")]
    if len(cells) < 4:
        continue
    own = cells[0][:3]
    checks = re.findall(r"(C\d\d):", cells[3])
    if checks and own not in checks:
        cross.append(f"{cells[0]} (by {', '.join(sorted(set(checks)))})")
    elif len(set(checks)) > 1:
        cross.append(f"{cells[0]} (also by {', '.join(sorted(set(checks) - {own}))})")
out = s.rstrip("\n") + "\n\n" + head
out += "**Per round.**\n\n" + stats + "\n"
out += ("Rounds 1–3: the repository's suite was run in full by the authors themselves (their reports are the record); for rounds "
        "4–6 the authors ran the relevant test files and the coordinator ran the full suite for every change (column 'suite with "
        "change'). One change (C07-l) stopped breaking the property when defect D14 was repaired and is kept for the record only.\n\n")
out += "**Caught by a check of another property** (own-property check silent or not the only one): " + "; ".join(cross) + ".\n\n"
out += "**All changes.** (`seeded/<id>/notes.md` has what each needs to manifest; `meta.json` the commands and raw outcome.)\n\n"
out += table
open(design, "w").write(out)
print("section 8 written:", len(table.splitlines()) - 2, "changes;", len(cross), "cross-property notes")
