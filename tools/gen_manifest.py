#!/usr/bin/env python3
"""Regenerate MANIFEST.json from the table below (kept in one place so the manifest is always schema-valid)."""
import json
import os
import subprocess

HERE = os.path.dirname(os.path.dirname(os.path.abspath(__file__)))

CHECKS = {
    # id: (technique, level text, level_note, design_ref)
    "C01": ("systematic enumeration of every accepted (sde_type, noise_type, method, options, Levy) cell x closed-form SDE "
            "family + Hypothesis-generated cells/coefficients; measured strong-order slope on a dt ladder against the "
            "closed-form solution on the same Brownian object",
            "Generated-input search with a closed-form pathwise oracle: RMS error over 2048 paths on dt=T*2^-3..2^-8, "
            "least-squares slope >= advertised order - 0.25; adaptive runs must not lose accuracy when tolerances "
            "tighten. A finite ladder in a coefficient box: evidence of the rate, not a limit proof. Found D2/D3.",
            "Closed forms (reducible, commuting-linear, scaled-additive) are trusted; the non-commutative family uses a "
            "fine Riemann reference on the same Brownian object; margin 0.25 calibrated on the unchanged tree.",
            "DESIGN.md §4 C01"),
    "C02": ("sympy-generated scalar drift/diffusion programs; real solver.step driven by a stub Brownian motion on a "
            "Gauss-Hermite grid of increments; residual against the sympy-built order-1.5 Ito-Taylor expansion on an h "
            "ladder; explicit-Jacobian textbook formulas for Euler/Milstein in several dimensions",
            "Generated-input search with a symbolic-expansion oracle: RMS and mean of (step - Taylor) are deterministic "
            "functions of h whose slopes must reach p+1/2 and p+1; every accepted combination is enumerated once and "
            "random programs/base points are generated on top. Numeric evidence for scalar SDEs, not a symbolic proof.",
            "Trusts sympy differentiation and Gauss-Hermite quadrature (12x12); multi-dimensional Levy-area terms are not "
            "expanded (covered end-to-end by C01).",
            "DESIGN.md §4 C02"),
    "C03": ("Hypothesis-generated Brownian configurations + query histories (op lists) with algebraic oracles",
            "Generated-input search: additivity of W and U, exact zeros, antisymmetry, Chen's relation over the stored "
            "pieces, end-of-history partition consistency and wrapper identities on every generated history; held on "
            "everything generated.",
            "Tolerance 256*eps*scale (worst observed ~3 eps); stored pieces are read from private tree slots.",
            "DESIGN.md §4 C03"),
    "C04": ("labelled-noise linear-map recovery (exact covariances), affine Levy probe, real-generator KS/moment screen; "
            "Hypothesis-generated histories",
            "Generated-input search with exact oracles: the Gram matrix of returned (W,U) coefficient vectors must equal "
            "the Brownian covariance on the generated partition (1e-9); conditional mean/variance of Davie/Foster areas "
            "exactly; Gaussianity only screened statistically. Found D1.",
            "Seed-labelled noises idealised as iid N(0,1); 32-bit seed birthday collisions excluded and counted; "
            "torch.randn trusted up to KS/moments at p=1e-9.",
            "DESIGN.md §4 C04"),
    "C05": ("Hypothesis-generated query histories + model dict of first answers (bit-equality oracle); recording proxy "
            "through sdeint_adjoint",
            "Generated-input search: every repeat in generated histories (all cache sizes, dt hint or inferred with a "
            "forced mid-history tree rebuild, tol, dyadic mode, wrappers) is compared bit-for-bit with the first answer; "
            "held on everything generated, not a proof.",
            "Trusts torch.equal and Hypothesis' generators; tree rebuilds are observed through a private slot.",
            "DESIGN.md §4 C05"),
    "C06": ("Hypothesis-generated pairs of histories (differential runs of two objects), bit-equality oracle",
            "Generated-input search: same entropy+queries -> identical; dyadic mode: two different generated histories "
            "then the same targets -> identical; different entropy -> different. Held on everything generated.",
            "Bit identity via torch.equal; 'different paths' is a probability-one event.",
            "DESIGN.md §4 C06"),
    "C07": ("Hypothesis-generated configurations and histories (incl. 1e3-1e5 step sweeps and sdeint-driven schedules) "
            "run under a recursion limit of depth+250 and a per-call node-creation budget",
            "Generated-input search with deterministic resource oracles (recursion head-room, node budget, cache "
            "occupancy, tensors kept alive); seven root causes D4-D8, D11, D14 were found this way and repaired; held on everything generated since.",
            "Non-termination is decided by a work counter (2e5 tree nodes per call), never by a clock; cache occupancy "
            "is read from a private dict.",
            "DESIGN.md §4 C07"),
    "C08": ("Hypothesis-generated SDE programs/configurations; autograd directional derivative vs central differences "
            "with the Brownian path fixed (adaptive: recorded schedule replayed)",
            "Generated-input search with a finite-difference oracle (rel 1e-6, worst observed 6e-8) over all solvers, "
            "noise types, options, fixed and adaptive steps.",
            "Central differences eps=1e-5 in float64; adaptive derivative is taken with the accepted step sequence frozen.",
            "DESIGN.md §4 C08"),
    "C09": ("systematic enumeration of every admissible (method, adjoint_method) cell on closed-form SDE families with "
            "per-row parameters + Hypothesis-generated cases; gradient-error slope on a dt ladder; bit-equality of forward "
            "values; gradient bookkeeping",
            "Generated-input search: adjoint gradients vs autograd through the closed-form solution on the same "
            "Brownian object (RMS over 512 paths, slope >= 0.35/0.75), forward values bit-identical to sdeint, only "
            "requested tensors receive gradients (known finding D10 listed; D13 - doubled gradient for a tensor listed twice - found and repaired).",
            "Order-0.5 adjoints cannot resolve sub-percent formula errors end-to-end (C11 covers the formulas).",
            "DESIGN.md §4 C09"),
    "C10": ("Hypothesis-generated SDE programs on dyadic grids; differential oracle adjoint_reversible_heun vs backprop",
            "Generated-input search: gradients agree to 1e-9 relative (worst observed 3e-12) for all four noise types, "
            "sizes, output-time subsets and loss weights generated.",
            "Dyadic dt/t0 only (the property's premise 'whole multiples of dt' fails in floating point otherwise).",
            "DESIGN.md §4 C10"),
    "C11": ("Hypothesis-generated SDE programs/augmented states; independent construction of the adjoint fields (plain "
            "autograd VJPs + generic Stratonovich->Ito conversion by central differences) compared with AdjointSDE",
            "Generated-input search with an independently derived oracle at 1e-7 (worst observed 3e-10); graph discipline "
            "under no_grad / second derivative under grad checked. Found D12 (graph kept under no_grad when g returns its input).",
            "First derivatives from torch.autograd (cross-checked by finite differences), second-order terms by central "
            "differences eps=1e-5.",
            "DESIGN.md §4 C11"),
    "C12": ("Hypothesis-generated (SDE, solver, t0, dt, two output-time vectors, dtype, ts form); recording Brownian proxy "
            "+ metamorphic comparison with the run whose ts is the grid",
            "Generated-input search: query log equals the prescribed grid, grid-time outputs bit-identical, interior "
            "outputs equal the recomputed linear interpolant (4 ulp), values at shared times invariant.",
            "Reference trajectory: the solver class stepped by the harness's own loop over the recorded grid (bit-for-bit), plus the same code run with ts = grid; the grid rule is recomputed independently.",
            "DESIGN.md §4 C12"),
    "C13": ("Hypothesis-generated restart points on the recorded step grid; differential one-shot vs chunked runs",
            "Generated-input search: states, extra solver state and Brownian query log bit-identical for 1-5 chunks, all "
            "solvers incl. reversible Heun's (f,g,z) state.",
            "Restart points are taken from the grid actually used.",
            "DESIGN.md §4 C13"),
    "C14": ("Hypothesis-generated SDEs/tolerances/dt/dt_min incl. stiff and fully clamped schedules; recording proxy + "
            "recorded controller values, independent error-norm recomputation",
            "Generated-input search over controller schedules: trial structure, tiling, dt_min, accept rule, strict "
            "shrink on rejection, returned values, trial-count bound. Found D9 (zero-length half steps).",
            "Controller decisions observed by wrapping two module functions for one case; termination by a trial bound.",
            "DESIGN.md §4 C14"),
    "C15": ("Hypothesis-generated SDE programs; round-trip oracle (forward solve, then reverse solve of the negated, "
            "time-reversed SDE with ReverseBrownian)",
            "Generated-input search: trajectory reconstructed to 1e-12 (1 step) / 1e-8 (<=64 steps); worst observed "
            "2e-16 / 1e-13. Numeric evidence, not a symbolic proof.",
            "Dyadic grids; stability window n <= 64.",
            "DESIGN.md §4 C15"),
    "C16": ("Hypothesis-generated SDE programs x 9 interface variants (differential, bit-equality or explicit error) and "
            "derived operators vs explicit Jacobians",
            "Generated-input search: every interface variant is either bit-identical to (f,g) or an explicit error; "
            "prod / g dg v / Levy-area Jacobian term equal their definitions to 1e-10 under no_grad, inference_mode and "
            "grad. Found D2 and D15.",
            "User-side g_prod is written with the same tensor ops as the library default; reference Jacobians from "
            "torch.autograd.functional.jacobian.",
            "DESIGN.md §4 C16"),
    "C17": ("Hypothesis-generated special-structure SDEs; differential oracle special declaration vs general embedding",
            "Generated-input search: diagonal/scalar/additive vs general declaration agree to 1e3*eps (observed "
            "bit-identical) for every solver accepting both.",
            "Diagonal diffusion is element-wise as documented.",
            "DESIGN.md §4 C17"),
    "C18": ("Hypothesis-generated SDEs with prior drift; differential (logqp on/off), independent user-level augmentation, "
            "exact 1/2|c|^2 metamorphic case",
            "Generated-input search: shape, non-negativity, additivity, undisturbed states, equality with an independent "
            "augmentation (1e-10), exact value when f-h=g c.",
            "Independent augmentation shares the solver but not SDELogqp/stable_division/pinverse.",
            "DESIGN.md §4 C18"),
    "C19": ("exhaustive itertools.product enumeration of the configuration matrix against a documentation-derived table; "
            "Hypothesis-generated malformed arguments in the thorough tier",
            "Exhaustive over the finite product (5632 forward cells, 946 adjoint cells, defaults, 30 malformed classes x "
            "8 SDE kinds x 2 APIs) on every run: accepted cells integrate, others raise ValueError with zero Brownian "
            "queries, unsupported adjoint methods are refused at backward.",
            "The accepted-combination table is transcribed from DOCUMENTATION.md and solver docstrings.",
            "DESIGN.md §4 C19"),
    "C20": ("Hypothesis-generated SDEs/solvers/batches; metamorphic row perturbation (bit-equality), row permutation, "
            "noise-row perturbation of the Brownian tree",
            "Generated-input search: row i is bit-identical when other rows of y0 and of the Brownian sample change; "
            "permutation equivariance at 1e3*eps; a perturbed noise row moves only its own row of W/U/A.",
            "Generated SDEs act row-wise; fixed steps.",
            "DESIGN.md §4 C20"),
}

NOT_YET = {}
FUZZ_QUICK = {"C03", "C05", "C06", "C07"}
NO_FUZZ = {"C01", "C09"}      # seconds per case: the libFuzzer campaign would make a few hundred executions


def main():
    props = [json.loads(l) for l in open(os.path.join(HERE, "properties.jsonl"))]
    checks = []
    na = []
    for p in props:
        pid = p["id"]
        if pid in CHECKS:
            tech, text, note, ref = CHECKS[pid]
            if pid in ("C03", "C05", "C07"):
                tech += "; Hypothesis rule-based state machine over one Brownian object as a second engine"
            if pid in FUZZ_QUICK:
                tech += "; coverage-guided atheris/libFuzzer campaign over the same strategy and oracle (quick and thorough tiers)"
            elif pid not in NO_FUZZ:
                tech += "; coverage-guided atheris/libFuzzer campaign over the same strategy and oracle (thorough tier)"
            checks.append({
                "property_id": pid,
                "quick_cmd": f"./check {pid} --tier quick",
                "thorough_cmd": f"./check {pid} --tier thorough",
                "evidence_file": f"evidence/{pid}.json",
                "replay_cmd_template": f"./check {pid} --replay {{path}}",
                "engine": "vp-hypothesis",
                "level_claimed": {"category": "exploration", "text": text, "design_ref": ref},
                "level_note": note,
                "technique": tech,
            })
        else:
            na.append({"property_id": pid, "reason": NOT_YET.get(
                pid, "check under construction: not claimed until its generated-input check is registered here "
                     "(the technique applies; see DESIGN.md §4)")})
    try:
        hooks = subprocess.check_output(["git", "-C", "/repo", "log", "--format=%h %s", "--grep=^hook:"],
                                        text=True).split("\n")
    except Exception:
        hooks = []
    man = {
        "version": 1,
        "setup_cmd": "bash setup.sh",
        "hooks": {
            "guard": "TORCHSDE_VERIF",
            "enable": "no source hooks exist: every instrument is a harness-side wrapper (Brownian proxies passed as "
                      "bm=, module attributes swapped for one case inside a context manager); checks import torchsde "
                      "straight from /repo's working tree (sys.path), nothing to build; TORCHSDE_VERIF=1 is exported "
                      "by ./check but read by nothing in /repo",
            "baseline_off_cmd": "cd /repo && /venv/bin/python -m pytest -ra -q -p no:cacheprovider --timeout=900 "
                                "--continue-on-collection-errors",
            "source_commits": [h.split()[0] for h in hooks if h.strip()],
            "add_only": True,
        },
        "engines": [{
            "name": "vp-hypothesis", "path": "vp/runner.py",
            "serves_properties": sorted(CHECKS),
            "kind_free_text": "Hypothesis 6.168 generators (plain-data cases, op-list histories) driven by vp/runner.py: "
                              "seeded by VERIF_SEED, sharded over processes, collect-then-shrink with failure "
                              "bucketing, JSON replays, measured evidence; every failure is confirmed by replay in a "
                              "fresh process before it is reported",
        }, {
            "name": "vp-statemachine", "path": "vp/machine.py", "serves_properties": ["C03", "C05", "C07"],
            "kind_free_text": "Hypothesis RuleBasedStateMachine over one Brownian object (bundles of end points and earlier "
                              "queries; invariants after every step); runs from the finalize hook of the three checks",
        }, {
            "name": "vp-atheris", "path": "vp/fuzz.py",
            "serves_properties": sorted(set(CHECKS) - NO_FUZZ),
            "kind_free_text": "atheris 3.1 / libFuzzer over hypothesis.fuzz_one_input of the property's own strategy with the "
                              "property's own run_case oracle inside the target; coverage from the instrumented torchsde "
                              "package; K processes with seeds derived from VERIF_SEED, fresh corpora seeded with PRNG byte strings; failing cases are "
                              "saved as ordinary JSON replays and re-evaluated uninstrumented",
        }],
        "checks": checks,
        "not_applicable": na,
        "notes": "seeded/<id>/ holds 240 independently written property-breaking changes (patch, demonstration, what each needs "
                 "to manifest, what was run); DESIGN.md section 8 records which check catches which. "
                 "fix: commits in /repo are listed in KNOWN_FINDINGS.txt (fixed: lines). ./check <ID> --replay <file> "
                 "re-runs one saved case without Hypothesis.",
    }
    with open(os.path.join(HERE, "MANIFEST.json"), "w") as fh:
        json.dump(man, fh, indent=1)
    try:
        import jsonschema
        jsonschema.validate(man, json.load(open("/root/.vp/MANIFEST.schema.json")))
        print("MANIFEST.json valid;", len(checks), "checks,", len(na), "not_applicable")
    except ImportError:
        print("MANIFEST.json written (jsonschema not importable here)")


if __name__ == "__main__":
    main()
