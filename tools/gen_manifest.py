#!/usr/bin/env python3
"""Regenerate MANIFEST.json from the table below (kept in one place so the manifest is always schema-valid)."""
import json
import os
import subprocess

HERE = os.path.dirname(os.path.dirname(os.path.abspath(__file__)))

CHECKS = {
    # id: (technique, level text, level_note, design_ref)
    "C05": ("Hypothesis-generated query histories + model dict of first answers (bit-equality oracle); recording proxy "
            "through sdeint_adjoint",
            "Generated-input search: every repeat in thousands of generated histories (all cache sizes, dt hint or "
            "inferred with a forced mid-history tree rebuild, tol, dyadic mode, wrappers) is compared bit-for-bit with "
            "the first answer; held on everything generated, not a proof.",
            "Trusts torch.equal and Hypothesis' generators; tree rebuilds are observed through a private slot.",
            "DESIGN.md §4 C05"),
    "C07": ("Hypothesis-generated configurations and histories (incl. 1e3-1e5 step sweeps and sdeint-driven schedules) "
            "run under a recursion limit of depth+250 and a per-call node-creation budget",
            "Generated-input search with deterministic resource oracles (recursion head-room, node budget, cache "
            "occupancy); five root causes D4-D8 were found this way and repaired; held on everything generated since.",
            "Non-termination is decided by a work counter (2e5 tree nodes per call), never by a clock; cache occupancy "
            "is read from a private dict.",
            "DESIGN.md §4 C07"),
}

NOT_YET = {}


def main():
    props = [json.loads(l) for l in open(os.path.join(HERE, "properties.jsonl"))]
    checks = []
    na = []
    for p in props:
        pid = p["id"]
        if pid in CHECKS:
            tech, text, note, ref = CHECKS[pid]
            checks.append({
                "property_id": pid,
                "quick_cmd": f"./check {pid} --tier quick",
                "thorough_cmd": f"./check {pid} --tier thorough",
                "evidence_file": f"evidence/{pid}.json",
                "replay_cmd_template": f"./check {pid} --replay {{path}}",
                "engine": "vp-hypothesis",
                "level_claimed": {"category": "exploration", "text": text, "design_ref": ref},
                "level_note": note,
                "technique": tech,
            })
        else:
            na.append({"property_id": pid, "reason": NOT_YET.get(
                pid, "check under construction in this session: not claimed until its generated-input check is "
                     "registered here (technique applies; see DESIGN.md §4)")})
    try:
        hooks = subprocess.check_output(["git", "-C", "/repo", "log", "--format=%h %s", "--grep=^hook:"],
                                        text=True).split("\n")
    except Exception:
        hooks = []
    man = {
        "version": 1,
        "setup_cmd": "bash setup.sh",
        "hooks": {
            "guard": "TORCHSDE_VERIF",
            "enable": "no source hooks exist: every instrument is a harness-side wrapper (Brownian proxies passed as "
                      "bm=, module attributes swapped for one case inside a context manager); checks import torchsde "
                      "straight from /repo's working tree (sys.path), nothing to build; TORCHSDE_VERIF=1 is exported "
                      "by ./check but read by nothing in /repo",
            "baseline_off_cmd": "cd /repo && /venv/bin/python -m pytest -ra -q -p no:cacheprovider --timeout=900 "
                                "--continue-on-collection-errors",
            "source_commits": [h.split()[0] for h in hooks if h.strip()],
            "add_only": True,
        },
        "engines": [{
            "name": "vp-hypothesis", "path": "vp/runner.py",
            "serves_properties": sorted(CHECKS),
            "kind_free_text": "Hypothesis 6.168 generators (plain-data cases, op-list histories) driven by vp/runner.py: "
                              "seeded by VERIF_SEED, sharded over processes, collect-then-shrink with failure "
                              "bucketing, JSON replays, measured evidence",
        }],
        "checks": checks,
        "not_applicable": na,
        "notes": "fix: commits in /repo are listed in KNOWN_FINDINGS.txt (fixed: lines). ./check <ID> --replay <file> "
                 "re-runs one saved case without Hypothesis.",
    }
    with open(os.path.join(HERE, "MANIFEST.json"), "w") as fh:
        json.dump(man, fh, indent=1)
    try:
        import jsonschema
        jsonschema.validate(man, json.load(open("/root/.vp/MANIFEST.schema.json")))
        print("MANIFEST.json valid;", len(checks), "checks,", len(na), "not_applicable")
    except ImportError:
        print("MANIFEST.json written (jsonschema not importable here)")


if __name__ == "__main__":
    main()
