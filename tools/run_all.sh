#!/bin/bash
# Development helper: run every registered check's quick (or given) tier and validate the evidence files.
cd "$(dirname "$0")/.."
TIER=${1:-quick}
rc_all=0
for id in $(python3 -c "import json;print(' '.join(c['property_id'] for c in json.load(open('MANIFEST.json'))['checks']))"); do
  start=$(date +%s)
  out=$(./check $id --tier $TIER 2>&1); rc=$?
  echo "$id rc=$rc $(( $(date +%s)-start ))s :: $(echo "$out" | grep -E '^\[' | tail -1)"
  echo "$out" | grep -E "VIOLATION|KNOWN-FINDING|HARNESS" | cut -c1-220
  [ $rc -ne 0 ] && rc_all=1
done
python3-vt - <<'PY'
import json, jsonschema, glob
s=json.load(open('/root/.vp/EVIDENCE.schema.json'))
bad=0
for f in sorted(glob.glob('evidence/*.json')):
    try: jsonschema.validate(json.load(open(f)), s)
    except Exception as e: bad+=1; print("INVALID", f, str(e)[:200])
print("evidence files valid" if not bad else f"{bad} invalid evidence files")
PY
exit $rc_all
