#!/bin/bash
# usage: tools/suite_mutant.sh <seeded/ID dir>   - run the repository's own test-suite against the change in a scratch worktree
# (PYTHONPATH points at the worktree: the tests drop sys.path[0] and would otherwise import the installed copy) and record the
# summary line in meta.json. Development helper.
set -u
D=$(readlink -f "$1")
WT=$(mktemp -d /tmp/sm.XXXXXX)
git -C /repo worktree add -q --detach "$WT" HEAD || exit 2
trap 'git -C /repo worktree remove --force "$WT"' EXIT
cd "$WT" && git apply "$D/patch.diff" || { echo "$D: patch does not apply"; exit 3; }
export OMP_NUM_THREADS=2 PYTHONPATH="$WT"
where=$(/venv/bin/python -c "import torchsde,os;print(os.path.dirname(torchsde.__file__))")
line=$(timeout 3600 /venv/bin/python -m pytest -q -p no:cacheprovider --timeout=900 2>&1 | tail -1)
python3 - "$D/meta.json" "$line" "$where" <<'PY'
import json, sys
p, line, where = sys.argv[1:]
m = json.load(open(p)); m["repo_test_suite_with_change"] = line; m["suite_imported_torchsde_from"] = "scratch worktree" if where.startswith("/tmp/sm.") else where
json.dump(m, open(p, "w"), indent=1)
PY
echo "$(basename $D): $line"
