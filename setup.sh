#!/bin/bash
# Offline setup: make sure hypothesis is importable next to the repository's own packages.
set -e
PY=${VERIF_PYTHON:-/venv/bin/python}
if ! "$PY" -c "import hypothesis" 2>/dev/null; then
  /venv/bin/pip install --no-index --find-links /opt/veriftools/wheels hypothesis
fi
"$PY" -c "import hypothesis, torch, numpy, sympy; print('setup ok: hypothesis', hypothesis.__version__, 'torch', torch.__version__)"
