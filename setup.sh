#!/bin/bash
# Offline setup: make sure hypothesis is importable next to the repository's own packages, and put atheris (the
# coverage-guided secondary engine, optional) under /verif/.deps.
set -e
cd "$(dirname "$0")"
PY=${VERIF_PYTHON:-/venv/bin/python}
if ! "$PY" -c "import hypothesis" 2>/dev/null; then
  /venv/bin/pip install --no-index --find-links /opt/veriftools/wheels hypothesis
fi
if [ ! -d .deps/atheris ]; then
  /venv/bin/pip install -q --no-index --find-links /opt/veriftools/wheels --target .deps atheris \
    || echo "atheris could not be installed: the fuzz engine will be skipped (recorded in the evidence)"
fi
"$PY" -c "import hypothesis, torch, numpy, sympy; print('setup ok: hypothesis', hypothesis.__version__, 'torch', torch.__version__)"
